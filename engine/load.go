// load.go - loading /repo (real source, -tags verif) into go/ssa, function naming, constant-global analysis.
package main

import (
	"sync"
	"fmt"
	"go/ast"
	"go/constant"
	"go/token"
	"go/types"
	"os"
	"sort"
	"strings"

	"golang.org/x/tools/go/packages"
	"golang.org/x/tools/go/ssa"
	"golang.org/x/tools/go/ssa/ssautil"
)

const modulePath = "github.com/evanoberholster/imagemeta"

type World struct {
	repo      string
	prog      *ssa.Program
	pkgs      []*packages.Package
	allPkgs   map[string]*packages.Package
	fset      *token.FileSet
	fns       map[string]*ssa.Function
	fnList    []*ssa.Function
	contracts map[string]*Contract
	specFuncs map[string]*SpecFunc
	lemmas    []*Lemma
	ifaceAlias map[string]string // interface method -> contract name
	callbackAlias map[string]string // callback key -> callback key whose contract it shares
	deadEdges   bool
	onlyProp    string // check command: solve only obligations that count for this property
	streamAlias []streamAliasDecl // reader types that are windows onto another reader object
	purePkgs  map[string]bool
	globals   map[string]*globalInfo // key: ssa global String()
	gnum      map[string]int
	typeTags  map[string]int
	ghostFields map[string]map[string]string // type key -> ghost field -> go type name
	pools     map[string]string
	poolPkg   map[string]string
	poolInv   map[string]Clause // pool invariants over `it`
	unbound   map[string]*Contract // contracts whose function does not exist
	contractFiles []string
	staleClauses []string
}

type globalInfo struct {
	g       *ssa.Global
	stored  bool // stored to / address escapes outside package initialisation
	init    ast.Expr
	info    *types.Info
	num     int
	distinctErr bool
}

func relPkg(path string) string {
	if path == modulePath {
		return "imagemeta"
	}
	return strings.TrimPrefix(path, modulePath+"/")
}

// fnName gives the canonical contract name of a function.
func fnName(fn *ssa.Function) string {
	if fn == nil {
		return "<nil>"
	}
	pk := ""
	if fn.Pkg != nil {
		pk = relPkg(fn.Pkg.Pkg.Path())
	} else if fn.Object() != nil && fn.Object().Pkg() != nil {
		pk = relPkg(fn.Object().Pkg().Path())
	}
	if fn.Signature.Recv() != nil {
		rt := fn.Signature.Recv().Type()
		star := ""
		if p, ok := rt.(*types.Pointer); ok {
			rt = p.Elem()
			star = "*"
		}
		tn := types.TypeString(rt, func(*types.Package) string { return "" })
		if n, ok := rt.(*types.Named); ok {
			tn = n.Obj().Name()
			if n.Obj().Pkg() != nil {
				pk = relPkg(n.Obj().Pkg().Path())
			}
		}
		if star != "" {
			return fmt.Sprintf("%s.(*%s).%s", pk, tn, fn.Name())
		}
		return fmt.Sprintf("%s.%s.%s", pk, tn, fn.Name())
	}
	if fn.Parent() != nil {
		return fnName(fn.Parent()) + "$" + fn.Name()
	}
	return pk + "." + fn.Name()
}

func inModule(fn *ssa.Function) bool {
	if fn == nil {
		return false
	}
	var p *types.Package
	if fn.Pkg != nil {
		p = fn.Pkg.Pkg
	} else if fn.Object() != nil {
		p = fn.Object().Pkg()
	}
	return p != nil && (p.Path() == modulePath || strings.HasPrefix(p.Path(), modulePath+"/"))
}

func loadWorld(repo string) (*World, error) {
	cfg := &packages.Config{Mode: packages.LoadAllSyntax, Dir: repo, BuildFlags: []string{"-tags=verif"},
		Env: append(os.Environ(), "GOFLAGS=-mod=readonly", "GOPROXY=off", "GOSUMDB=off", "GOTOOLCHAIN=local")}
	pkgs, err := packages.Load(cfg, "./...")
	if err != nil {
		return nil, err
	}
	nerr := 0
	packages.Visit(pkgs, nil, func(p *packages.Package) {
		for _, e := range p.Errors {
			fmt.Fprintln(os.Stderr, "load error:", e)
			nerr++
		}
	})
	if nerr > 0 {
		return nil, fmt.Errorf("%d package load errors (does /repo compile with -tags verif?)", nerr)
	}
	prog, _ := ssautil.AllPackages(pkgs, ssa.NaiveForm|ssa.GlobalDebug)
	prog.Build()
	w := &World{repo: repo, prog: prog, pkgs: pkgs, fset: prog.Fset, fns: map[string]*ssa.Function{}, contracts: map[string]*Contract{},
		specFuncs: map[string]*SpecFunc{}, globals: map[string]*globalInfo{}, gnum: map[string]int{}, typeTags: map[string]int{},
		ifaceAlias: map[string]string{}, callbackAlias: map[string]string{}, purePkgs: map[string]bool{}, allPkgs: map[string]*packages.Package{}, ghostFields: map[string]map[string]string{}, pools: map[string]string{}, poolPkg: map[string]string{}}
	packages.Visit(pkgs, nil, func(p *packages.Package) { w.allPkgs[p.PkgPath] = p })
	for fn := range ssautil.AllFunctions(prog) {
		if !inModule(fn) || len(fn.Blocks) == 0 {
			continue
		}
		if fn.Synthetic != "" && !strings.HasPrefix(fn.Synthetic, "wrapper") && !strings.HasPrefix(fn.Synthetic, "bound") {
			// keep package initialisers out
			if fn.Name() == "init" {
				continue
			}
		}
		if fn.Synthetic != "" {
			continue
		}
		nm := fnName(fn)
		if _, dup := w.fns[nm]; dup {
			continue
		}
		w.fns[nm] = fn
		w.fnList = append(w.fnList, fn)
	}
	sort.Slice(w.fnList, func(i, j int) bool { return fnName(w.fnList[i]) < fnName(w.fnList[j]) })
	w.analyseGlobals()
	return w, nil
}

// analyseGlobals finds package-level variables of the module that are never
// written (nor have their address escape) outside package initialisation.
func (w *World) analyseGlobals() {
	n := 0
	for _, p := range w.pkgs {
		sp := w.prog.Package(p.Types)
		if sp == nil {
			continue
		}
		var names []string
		for nm := range sp.Members {
			names = append(names, nm)
		}
		sort.Strings(names)
		for _, nm := range names {
			g, ok := sp.Members[nm].(*ssa.Global)
			if !ok {
				continue
			}
			n++
			gi := &globalInfo{g: g, num: n, info: p.TypesInfo}
			w.globals[g.String()] = gi
			// find initialiser
			for _, f := range p.Syntax {
				for _, d := range f.Decls {
					gd, ok := d.(*ast.GenDecl)
					if !ok || gd.Tok != token.VAR {
						continue
					}
					for _, s := range gd.Specs {
						vs := s.(*ast.ValueSpec)
						for i, id := range vs.Names {
							if id.Name == nm && len(vs.Values) == len(vs.Names) {
								gi.init = vs.Values[i]
							}
						}
					}
				}
			}
			if ce, ok := gi.init.(*ast.CallExpr); ok {
				if se, ok := ce.Fun.(*ast.SelectorExpr); ok {
					if x, ok := se.X.(*ast.Ident); ok && (x.Name == "errors" || x.Name == "fmt") && (se.Sel.Name == "New" || se.Sel.Name == "Errorf") {
						gi.distinctErr = true
					}
				}
			}
		}
	}
	safeUse := func(v ssa.Value) bool { return true }
	var valueOnlyRead func(v ssa.Value, depth int) bool
	valueOnlyRead = func(v ssa.Value, depth int) bool {
		if depth > 6 {
			return false
		}
		refs := v.Referrers()
		if refs == nil {
			return true
		}
		for _, r := range *refs {
			switch x := r.(type) {
			case *ssa.UnOp:
				if x.Op != token.MUL {
					return false
				}
				// loaded value: maps/slices may be mutated through the value
				switch x.Type().Underlying().(type) {
				case *types.Map, *types.Slice, *types.Pointer:
					if !valueOnlyRead(x, depth+1) {
						return false
					}
				}
			case *ssa.IndexAddr:
				if x.X != v || !valueOnlyRead(x, depth+1) {
					return false
				}
			case *ssa.FieldAddr:
				if !valueOnlyRead(x, depth+1) {
					return false
				}
			case *ssa.Lookup:
				if x.X != v {
					return false
				}
			case *ssa.Index, *ssa.Field, *ssa.BinOp, *ssa.If, *ssa.DebugRef, *ssa.Extract, *ssa.Range:
			case *ssa.Slice:
				if !valueOnlyRead(x, depth+1) {
					return false
				}
			case *ssa.Call:
				if b, ok := x.Call.Value.(*ssa.Builtin); ok && (b.Name() == "len" || b.Name() == "cap") {
					continue
				}
				// value passed to a call: fine for non-reference kinds only
				switch v.Type().Underlying().(type) {
				case *types.Map, *types.Slice, *types.Pointer:
					return false
				}
			case *ssa.MapUpdate, *ssa.Store:
				if st, ok := x.(*ssa.Store); ok && st.Addr != v {
					// storing the value somewhere: reference kinds escape
					switch v.Type().Underlying().(type) {
					case *types.Map, *types.Slice, *types.Pointer:
						return false
					}
					continue
				}
				return false
			case *ssa.Convert, *ssa.ChangeType, *ssa.MakeInterface, *ssa.Phi, *ssa.Return:
				switch v.Type().Underlying().(type) {
				case *types.Map, *types.Slice, *types.Pointer:
					return false
				}
			default:
				return false
			}
		}
		return true
	}
	_ = safeUse
	for fn := range ssautil.AllFunctions(w.prog) {
		if !inModule(fn) {
			continue
		}
		if fn.Pkg != nil && fn.Pkg.Pkg.Name() == "main" {
			continue // command-line programs of the module configure the library like any user; they are not library code
		}
		isInit := fn.Synthetic != "" && fn.Name() == "init"
		for _, b := range fn.Blocks {
			for _, ins := range b.Instrs {
				for _, op := range ins.Operands(nil) {
					g, ok := (*op).(*ssa.Global)
					if !ok {
						continue
					}
					gi := w.globals[g.String()]
					if gi == nil {
						continue
					}
					if isInit {
						continue
					}
					switch x := ins.(type) {
					case *ssa.UnOp:
						if x.Op == token.MUL {
							switch x.Type().Underlying().(type) {
							case *types.Map, *types.Slice, *types.Pointer:
								if !valueOnlyRead(x, 0) {
									gi.stored = true
								}
							}
							continue
						}
						gi.stored = true
					case *ssa.IndexAddr, *ssa.FieldAddr:
						if !valueOnlyRead(ins.(ssa.Value), 0) {
							gi.stored = true
						}
					case *ssa.DebugRef:
					default:
						gi.stored = true
					}
				}
			}
		}
	}
}

// constEval evaluates a constant expression using type info.
func constEval(info *types.Info, e ast.Expr) (constant.Value, types.Type, bool) {
	if tv, ok := info.Types[e]; ok && tv.Value != nil {
		return tv.Value, tv.Type, true
	}
	return nil, nil, false
}

var typeTagMu sync.Mutex

func (w *World) typeTag(t types.Type) int {
	typeTagMu.Lock()
	defer typeTagMu.Unlock()
	k := types.TypeString(t, nil)
	if n, ok := w.typeTags[k]; ok {
		return n
	}
	n := len(w.typeTags) + 1
	w.typeTags[k] = n
	return n
}

type streamAliasDecl struct {
	typ  string   // "*isobmff.box"
	path []string // fields leading to the underlying reader object
}
