// call.go - calls: builtins, contract calls, transparent (inlined) calls, pure dependencies, unknown calls.
package main

import (
	"fmt"
	"os"
	"go/ast"
	"go/token"
	"go/types"
	"strings"

	"golang.org/x/tools/go/ssa"
)

var transparentPkgs = map[string]bool{"encoding/binary": true, "image": true}

const maxInlineBlocks = 16
const maxInlineDepth = 3

func (c *Ctx) call(fr *Frame, st *State, reach string, x *ssa.Call, com *ssa.CallCommon, resT types.Type) Val {
	return c.callWith(fr, st, reach, com, x.Pos(), nil, nil, resT)
}

func pkgPathOf(fn *ssa.Function) string {
	if fn.Pkg != nil {
		return fn.Pkg.Pkg.Path()
	}
	if fn.Object() != nil && fn.Object().Pkg() != nil {
		return fn.Object().Pkg().Path()
	}
	return ""
}

// depName gives the contract name of a dependency function, e.g. "(*bufio.Reader).Peek", "bytes.Equal".
func depName(fn *ssa.Function) string {
	if fn.Signature.Recv() != nil {
		rt := fn.Signature.Recv().Type()
		return "(" + types.TypeString(rt, func(p *types.Package) string { return p.Path() }) + ")." + fn.Name()
	}
	return pkgPathOf(fn) + "." + fn.Name()
}

func (c *Ctx) contractFor(fn *ssa.Function) *Contract {
	if inModule(fn) {
		return c.w.contracts[fnName(fn)]
	}
	return c.w.contracts[depName(fn)]
}

func (c *Ctx) isPurePkg(path string) bool {
	if c.w.purePkgs[path] {
		return true
	}
	for p := range c.w.purePkgs {
		if strings.HasSuffix(p, "/...") && strings.HasPrefix(path, strings.TrimSuffix(p, "...")) {
			return true
		}
	}
	return false
}

// fnPureSyntactic: no heap/memory writes and only pure callees (used for loop frames).
func (c *Ctx) fnPureSyntactic(fn *ssa.Function, depth int) bool {
	if depth > 3 || len(fn.Blocks) == 0 {
		return false
	}
	if v, ok := pureCache[fn]; ok {
		return v
	}
	pureCache[fn] = false
	for _, b := range fn.Blocks {
		for _, ins := range b.Instrs {
			switch x := ins.(type) {
			case *ssa.Store:
				if rootAlloc(x.Addr) == nil {
					return false
				}
			case *ssa.MapUpdate, *ssa.Defer, *ssa.Go, *ssa.Send:
				return false
			case *ssa.Call:
				if !c.callPure(&x.Call, depth+1) {
					return false
				}
			}
		}
	}
	pureCache[fn] = true
	return true
}

var pureCache = map[*ssa.Function]bool{}

func (c *Ctx) callPure(com *ssa.CallCommon, depth int) bool {
	if b, ok := com.Value.(*ssa.Builtin); ok {
		switch b.Name() {
		case "copy", "append", "delete", "clear":
			return false
		}
		return true
	}
	callee := com.StaticCallee()
	if callee == nil || com.IsInvoke() {
		if com.IsInvoke() {
			if n, ok := com.Value.Type().(*types.Named); ok && n.Obj().Pkg() != nil && c.isPurePkg(n.Obj().Pkg().Path()) {
				return true
			}
		}
		return false
	}
	if ct := c.contractFor(callee); ct != nil {
		return ct.Pure
	}
	if c.isPurePkg(pkgPathOf(callee)) {
		return true
	}
	if inModule(callee) || transparentPkgs[pkgPathOf(callee)] {
		return c.fnPureSyntactic(callee, depth)
	}
	return false
}

func (c *Ctx) callIsPure(fr *Frame, x *ssa.Call) bool { return c.callPure(&x.Call, 0) }

func (c *Ctx) callWith(fr *Frame, st *State, reach string, com *ssa.CallCommon, pos token.Pos, args []Val, fnv Val, resT types.Type) Val {
	if resT == nil {
		resT = com.Signature().Results()
		if tt, ok := resT.(*types.Tuple); ok && tt.Len() == 1 {
			resT = tt.At(0).Type()
		}
	}
	mkRes := func() Val {
		if t, ok := resT.(*types.Tuple); ok && t.Len() == 0 {
			return nil
		}
		return c.freshVal(resT, "ret")
	}
	if args == nil {
		for _, a := range com.Args {
			args = append(args, c.val(fr, a))
		}
	}
	if b, ok := com.Value.(*ssa.Builtin); ok {
		return c.builtin(fr, st, reach, b, com, pos, args, resT)
	}
	callee := com.StaticCallee()
	if callee == nil && !com.IsInvoke() {
		// call through a package-level function variable that is never assigned after initialisation
		if tgt, recv, ok := c.constFuncGlobal(com.Value); ok {
			callee = tgt
			if recv != nil {
				args = append([]Val{recv}, args...)
			}
			c.notes["const-func-global:"+exprText(com.Value)]++
		}
	}
	if callee != nil && !com.IsInvoke() {
		if _, isClosure := com.Value.(*ssa.MakeClosure); isClosure {
			bail("call of closure")
		}
		if v, ok := c.poolCall(fr, st, reach, callee, com, args, pos); ok {
			return v
		}
		if ct := c.contractFor(callee); ct != nil && !(c.specMode && inModule(callee)) {
			return c.contractCall(fr, ct, callee, nil, args, resT, st, reach, pos)
		}
		path := pkgPathOf(callee)
		canInline := (inModule(callee) || transparentPkgs[path]) && len(callee.Blocks) > 0 && fr.depth < maxInlineDepth && noLoops(callee) &&
			len(callee.Blocks) <= maxInlineBlocks && callee != fr.fn && callee != c.root && len(callee.FreeVars) == 0
		if c.specMode && fr.depth < 6 && len(callee.Blocks) > 0 && noLoops(callee) {
			canInline = true
		}
		if canInline {
			var res Val
			var out *State
			ok := func() (ok bool) {
				mark := len(c.obls)
				nd, na := len(c.decls), len(c.asms)
				defer func() {
					if r := recover(); r != nil {
						if u, isU := r.(unsupported); isU {
							c.notes["inline-fallback("+callee.Name()+"): "+u.why]++
							c.obls = c.obls[:mark]
							_ = nd
							_ = na
							ok = false
							return
						}
						panic(r)
					}
				}()
				c.inlineChain = append(c.inlineChain, shortFn(callee))
				defer func() { c.inlineChain = c.inlineChain[:len(c.inlineChain)-1] }()
				if inModule(callee) && callee.Signature.Recv() != nil {
					if _, isPtr := callee.Signature.Recv().Type().(*types.Pointer); isPtr {
						if r, ok := ptrAsRef(args[0]); ok {
							c.nilCheck(reach, r.T, pos, "receiver of "+callee.Name())
						}
					}
				}
				var rr string
				res, out, rr = c.exec(callee, args, st.clone(), reach, fr.depth+1)
				if rr == "false" {
					// callee never returns (panics on all paths): path is dead afterwards
					c.assume(reach, "false")
				}
				return true
			}()
			if ok {
				*st = *out
				c.notes["inlined"]++
				return res
			}
		}
		if c.isPurePkg(path) {
			c.depsUsed["pure/total: "+path] = true
			return mkRes()
		}
		if inModule(callee) {
			if os.Getenv("VCGO_DEBUG") != "" {
				fmt.Fprintf(os.Stderr, "DEBUG unknown call %s from %s: contract=%v specMode=%v depth=%d\n", fnName(callee), fnName(fr.fn), c.contractFor(callee) != nil, c.specMode, fr.depth)
			}
			c.unknownCalls[fnName(callee)]++
		} else {
			c.unknownCalls[depName(callee)]++
		}
		c.havocAll(st, reach)
		return mkRes()
	}
	if com.IsInvoke() {
		// interface method call
		recvT := com.Value.Type()
		key := types.TypeString(recvT, func(p *types.Package) string { return p.Path() }) + "." + com.Method.Name()
		key = strings.TrimPrefix(key, modulePath+"/")
		if alias, ok := c.w.ifaceAlias[key]; ok {
			key = alias
		}
		recv := c.val(fr, com.Value)
		if ct := c.w.contracts[key]; ct != nil {
			all := append([]Val{recv}, args...)
			if iv, ok := recv.(IfaceV); ok {
				c.oblige("nil", "", reach, fmt.Sprintf("(not (= %s 0))", iv.Tag), pos, exprText(com.Value)+" != nil (interface method call)")
			}
			return c.contractCall(fr, ct, nil, com, all, resT, st, reach, pos)
		}
		if n, ok := recvT.(*types.Named); ok && n.Obj().Pkg() != nil && c.isPurePkg(n.Obj().Pkg().Path()) {
			c.depsUsed["pure/total: "+n.Obj().Pkg().Path()] = true
			return mkRes()
		}
		if iv, ok := recv.(IfaceV); ok {
			c.oblige("nil", "", reach, fmt.Sprintf("(not (= %s 0))", iv.Tag), pos, exprText(com.Value)+" != nil (interface method call)")
		}
		c.unknownCalls["invoke "+key]++
		c.havocAll(st, reach)
		return mkRes()
	}
	// dynamic call through a function value: callback field?
	if key := callbackKey(com.Value); key != "" {
		if ct := c.w.callbackContract(key); ct != nil {
			if _, aliased := c.w.callbackAlias["callback "+key]; aliased {
				c.depsUsed["function-valued parameter "+key+": every caller is assumed to pass a value satisfying the callback contract "+ct.Name+" (refinement at the passing site not checked)"] = true
			}
			fv := c.val(fr, com.Value)
			if sc, ok := fv.(Sc); ok {
				c.oblige("nil", "", reach, fmt.Sprintf("(not (= %s 0))", sc.T), pos, exprText(com.Value)+" != nil (function value)")
			}
			return c.contractCall(fr, ct, nil, com, args, resT, st, reach, pos)
		}
		c.unknownCalls["callback "+key]++
	} else {
		c.unknownCalls["dynamic call"]++
	}
	fv := c.val(fr, com.Value)
	if sc, ok := fv.(Sc); ok {
		c.oblige("nil", "", reach, fmt.Sprintf("(not (= %s 0))", sc.T), pos, exprText(com.Value)+" != nil (function value)")
	}
	c.havocAll(st, reach)
	return mkRes()
}

func shortFn(fn *ssa.Function) string {
	n := fnName(fn)
	if i := strings.LastIndex(n, "/"); i >= 0 {
		n = n[i+1:]
	}
	return n
}

// callbackContract resolves a callback key (through `dep callback A = B` aliases) to its contract.
func (w *World) callbackContract(key string) *Contract {
	k := "callback " + key
	for i := 0; i < 4; i++ {
		if a, ok := w.callbackAlias[k]; ok {
			k = a
			continue
		}
		break
	}
	return w.contracts[k]
}

// callbackKey names a function-valued struct field: "jpeg.jpegReader.ExifReader".
func callbackKey(v ssa.Value) string {
	if p, ok := v.(*ssa.Parameter); ok && p.Parent() != nil {
		return shortFn(p.Parent()) + "." + p.Name()
	}
	u, ok := v.(*ssa.UnOp)
	if !ok || u.Op != token.MUL {
		return ""
	}
	if a, ok := u.X.(*ssa.Alloc); ok && a.Parent() != nil {
		// a function-valued parameter (spilled to a local in naive form): "isobmff.readCMTBox.exifReader"
		for _, p := range a.Parent().Params {
			if p.Name() == a.Comment {
				if _, isFn := p.Type().Underlying().(*types.Signature); isFn {
					return shortFn(a.Parent()) + "." + p.Name()
				}
			}
		}
		return ""
	}
	if g, ok := u.X.(*ssa.Global); ok && g.Pkg != nil {
		// a function-valued package variable (an implementation switch such as transforms32.YCbCrToGray)
		if _, isFn := g.Type().(*types.Pointer).Elem().Underlying().(*types.Signature); isFn {
			return relPkg(g.Pkg.Pkg.Path()) + "." + g.Name()
		}
		return ""
	}
	fa, ok := u.X.(*ssa.FieldAddr)
	if !ok {
		return ""
	}
	pt, ok := fa.X.Type().Underlying().(*types.Pointer)
	if !ok {
		return ""
	}
	st := pt.Elem().Underlying().(*types.Struct)
	return typeKey(pt.Elem()) + "." + st.Field(fa.Field).Name()
}

func (c *Ctx) builtin(fr *Frame, st *State, reach string, b *ssa.Builtin, com *ssa.CallCommon, pos token.Pos, args []Val, resT types.Type) Val {
	switch b.Name() {
	case "len", "cap":
		switch a := args[0].(type) {
		case SliceV:
			if b.Name() == "len" {
				return Sc{a.Len, BV64}
			}
			return Sc{a.Cap, BV64}
		case StrV:
			return Sc{a.Len, BV64}
		case ArrV:
			return Sc{i64(a.N), BV64}
		case Sc: // map / chan
			r := c.fresh("len", BV64)
			c.assume("true", "(bvsge "+r+" "+i64(0)+")")
			return Sc{r, BV64}
		}
		if pt, ok := com.Args[0].Type().Underlying().(*types.Pointer); ok {
			return Sc{i64(pt.Elem().Underlying().(*types.Array).Len()), BV64}
		}
		bail("len of %T", args[0])
	case "copy":
		return c.copyBuiltin(st, reach, args, pos)
	case "append":
		s := args[0].(SliceV)
		n := c.freshVal(com.Args[0].Type(), "app").(SliceV)
		c.assume(reach, fmt.Sprintf("(bvsge %s %s)", n.Len, s.Len))
		if len(args) > 1 {
			if a1, ok := args[1].(SliceV); ok {
				c.assume(reach, fmt.Sprintf("(= %s (bvadd %s %s))", n.Len, s.Len, a1.Len))
				c.allocSites = append(c.allocSites, allocSite{pos: c.fset.Position(pos), what: "append", size: a1.Len, reach: reach, ndecl: len(c.decls), nasm: len(c.asms), elem: s.Elem})
			} else if a1, ok := args[1].(StrV); ok {
				c.assume(reach, fmt.Sprintf("(= %s (bvadd %s %s))", n.Len, s.Len, a1.Len))
			}
		}
		// append may write into spare capacity of the old array or a new one: element memory of that type is havocked;
		// for scalar element types the CONTENTS OF THE RESULT are then pinned: the old elements followed by the new ones
		pfx := typeKey(s.Elem)
		srt, scalar := scalarSort(s.Elem)
		oldMem := ""
		if scalar {
			oldMem = c.memGet(st, pfx, srt)
		}
		c.havocMemOfElem(st, s.Elem)
		if scalar && len(args) > 1 {
			newMem := st.mem[pfx]
			q := func(body func(j string) string) {
				c.n++
				j := fmt.Sprintf("aj_%d", c.n)
				b := body(j)
				full := fmt.Sprintf("(forall ((%s %s)) (! %s :pattern ((select (select %s %s) (bvadd %s %s)))))", j, BV64, b, newMem, n.Arr, n.Off, j)
				c.registerForall(full, []string{j}, []string{BV64}, b)
				c.assume(reach, full)
				c.quantified = true
			}
			q(func(j string) string {
				return fmt.Sprintf("(=> (and (bvsle %s %s) (bvslt %s %s)) (= (select (select %s %s) (bvadd %s %s)) (select (select %s %s) (bvadd %s %s))))", i64(0), j, j, s.Len, newMem, n.Arr, n.Off, j, oldMem, s.Arr, s.Off, j)
			})
			switch a1 := args[1].(type) {
			case SliceV:
				q(func(j string) string {
					return fmt.Sprintf("(=> (and (bvsle %s %s) (bvslt %s %s)) (= (select (select %s %s) (bvadd (bvadd %s %s) %s)) (select (select %s %s) (bvadd %s %s))))", i64(0), j, j, a1.Len, newMem, n.Arr, n.Off, s.Len, j, oldMem, a1.Arr, a1.Off, j)
				})
			case StrV:
				if pfx == "uint8" {
					q(func(j string) string {
						return fmt.Sprintf("(=> (and (bvsle %s %s) (bvslt %s %s)) (= (select (select %s %s) (bvadd (bvadd %s %s) %s)) (select %s (bvadd %s %s))))", i64(0), j, j, a1.Len, newMem, n.Arr, n.Off, s.Len, j, a1.Data, a1.Off, j)
					})
				}
			}
			c.notes["append(result contents quantified)"]++
		} else {
			c.notes["append(contents untracked)"]++
		}
		return n
	case "panic":
		kind := "panic"
		c.oblige(kind, "", reach, "false", pos, "panic(...) unreachable")
		return nil
	case "recover":
		return IfaceV{c.fresh("rect", "Int"), c.fresh("recr", "Int")}
	case "print", "println":
		c.notes["print-builtin"]++
		return nil
	case "ssa:deferstack":
		return Sc{"5", "Int"}
	case "ssa:wrapnilchk":
		return args[0]
	case "min", "max":
		a, bb := args[0].(Sc), args[1].(Sc)
		_, signed, _ := bvw(com.Args[0].Type())
		lt := "bvult"
		if signed {
			lt = "bvslt"
		}
		if b.Name() == "min" {
			return Sc{fmt.Sprintf("(ite (%s %s %s) %s %s)", lt, a.T, bb.T, a.T, bb.T), a.S}
		}
		return Sc{fmt.Sprintf("(ite (%s %s %s) %s %s)", lt, a.T, bb.T, bb.T, a.T), a.S}
	case "delete", "clear":
		c.notes["map-delete(untracked)"]++
		return nil
	}
	bail("builtin %s", b.Name())
	return nil
}

func (c *Ctx) havocMemOfElem(st *State, elem types.Type) {
	c.touchAll(st)
	pfx := typeKey(elem)
	for k := range st.mem {
		if k == pfx || strings.HasPrefix(k, pfx+".") || strings.HasPrefix(k, pfx+"#") {
			old := st.mem[k]
			st.mem[k] = c.fresh("M", st.hsort["M:"+k])
			if k == "uint8" {
				for _, v := range st.views {
					c.assume("true", fmt.Sprintf("(= (select %s %s) (select %s %s))", st.mem[k], v, old, v))
				}
			}
		}
	}
}

// copyBuiltin models copy(dst, src): n = min(len(dst), len(src)) elements are moved (memmove semantics).
func (c *Ctx) copyBuiltin(st *State, reach string, args []Val, pos token.Pos) Val {
	d, ok := args[0].(SliceV)
	if !ok {
		bail("copy into %T", args[0])
	}
	var slen string
	switch s := args[1].(type) {
	case SliceV:
		slen = s.Len
	case StrV:
		slen = s.Len
	default:
		bail("copy from %T", args[1])
	}
	n := c.name("cpn", BV64, fmt.Sprintf("(ite (bvslt %s %s) %s %s)", d.Len, slen, d.Len, slen))
	// destination array contents: elements [off, off+n) come from the source, everything else unchanged.
	elem := d.Elem
	c.touchAll(st)
	pfx := typeKey(elem)
	var keys []string
	for k := range st.mem {
		if k == pfx || strings.HasPrefix(k, pfx+".") || strings.HasPrefix(k, pfx+"#") {
			keys = append(keys, k)
		}
	}
	if _, isS := scalarSort(elem); isS {
		if _, ok := st.mem[pfx]; !ok {
			srt, _ := scalarSort(elem)
			c.memGet(st, pfx, srt)
			keys = append(keys, pfx)
		}
	}
	for _, k := range keys {
		old := st.mem[k]
		srt := innerSort(strings.TrimSuffix(strings.TrimPrefix(st.hsort["M:"+k], "(Array Int "), ")"))
		inner := c.fresh("cpy", "(Array "+BV64+" "+srt+")")
		var srcSel func(j string) string
		switch s := args[1].(type) {
		case SliceV:
			srcSel = func(j string) string {
				return fmt.Sprintf("(select (select %s %s) (bvadd %s (bvsub %s %s)))", old, s.Arr, s.Off, j, d.Off)
			}
		case StrV:
			if k != "uint8" {
				continue
			}
			srcSel = func(j string) string { return fmt.Sprintf("(select %s (bvadd %s (bvsub %s %s)))", s.Data, s.Off, j, d.Off) }
		}
		c.n++
		j := fmt.Sprintf("cj_%d", c.n)
		cbody := fmt.Sprintf("(= (select %s %s) (ite (and (bvsle %s %s) (bvslt %s (bvadd %s %s))) %s (select (select %s %s) %s)))", inner, j, d.Off, j, j, d.Off, n, srcSel(j), old, d.Arr, j)
		cfull := fmt.Sprintf("(forall ((%s %s)) (! %s :pattern ((select %s %s))))", j, BV64, cbody, inner, j)
		c.registerForall(cfull, []string{j}, []string{BV64}, cbody)
		c.assume(reach, cfull)
		c.quantified = true
		st.mem[k] = c.name("ms", st.hsort["M:"+k], fmt.Sprintf("(store %s %s %s)", old, d.Arr, inner))
	}
	c.notes["copy(quantified)"]++
	return Sc{n, BV64}
}

// ---------- contract calls ----------

type calleeNames struct {
	params  []string
	ptypes  []types.Type
	results []string
	rtypes  []types.Type
	pkg     *types.Package
}

func (c *Ctx) namesFor(ct *Contract, callee *ssa.Function, com *ssa.CallCommon) calleeNames {
	var n calleeNames
	var sig *types.Signature
	if callee != nil {
		sig = callee.Signature
		for _, p := range callee.Params {
			n.params = append(n.params, p.Name())
			n.ptypes = append(n.ptypes, p.Type())
		}
		if callee.Pkg != nil {
			n.pkg = callee.Pkg.Pkg
		}
	} else {
		sig = com.Signature()
		if com.IsInvoke() {
			n.params = append(n.params, "recv")
			n.ptypes = append(n.ptypes, com.Value.Type())
			sig = com.Method.Type().(*types.Signature)
		}
		for i := 0; i < sig.Params().Len(); i++ {
			nm := sig.Params().At(i).Name()
			if nm == "" || nm == "_" {
				nm = fmt.Sprintf("a%d", i)
			}
			n.params = append(n.params, nm)
			n.ptypes = append(n.ptypes, sig.Params().At(i).Type())
		}
	}
	if len(ct.Params) > 0 {
		if len(ct.Params) != len(n.params) {
			cerr("contract %s names %d parameters, function has %d", ct.Name, len(ct.Params), len(n.params))
		}
		n.params = ct.Params
	}
	for i := 0; i < sig.Results().Len(); i++ {
		nm := sig.Results().At(i).Name()
		if nm == "" || nm == "_" {
			nm = fmt.Sprintf("r%d", i)
		}
		n.results = append(n.results, nm)
		n.rtypes = append(n.rtypes, sig.Results().At(i).Type())
	}
	if len(ct.Results) > 0 {
		if len(ct.Results) != len(n.results) {
			cerr("contract %s names %d results, function has %d", ct.Name, len(ct.Results), len(n.results))
		}
		n.results = ct.Results
	}
	return n
}

func mkLookup(n calleeNames, args []Val, res Val) func(string, bool) (CVal, bool) {
	return func(name string, old bool) (CVal, bool) {
		for i, p := range n.params {
			if p == name && i < len(args) {
				return CVal{V: normPtr(args[i]), T: n.ptypes[i]}, true
			}
		}
		if res != nil {
			if len(n.results) == 1 {
				if name == n.results[0] || name == "result" {
					return CVal{V: res, T: n.rtypes[0]}, true
				}
			} else if tv, ok := res.(TupleV); ok {
				for i, r := range n.results {
					if r == name {
						return CVal{V: tv.V[i], T: n.rtypes[i]}, true
					}
				}
			}
		}
		return CVal{}, false
	}
}

// hidden: a clause marked [Cxx ONLY] is not a hypothesis in the check of a property it does not list
func (c *Ctx) hidden(cl Clause) bool {
	return cl.Only && c.w.onlyProp != "" && !hasProp(cl.Props, c.w.onlyProp)
}

func (c *Ctx) contractCall(fr *Frame, ct *Contract, callee *ssa.Function, com *ssa.CallCommon, args []Val, resT types.Type, st *State, reach string, pos token.Pos) Val {
	if ct.Assumed {
		why := "assumed contract: " + ct.Name
		if ct.Trusted != "" {
			why += " (trusted: " + ct.Trusted + ")"
		}
		c.depsUsed[why] = true
	} else {
		c.callees[ct.Name] = true
	}
	names := c.namesFor(ct, callee, com)
	for i, a := range args {
		if p, ok := a.(PtrV); ok {
			if _, isRef := ptrAsRef(p); !isRef && p.Kind != 2 {
				bail("interior/local pointer passed to contract callee %s (arg %d)", ct.Name, i)
			}
			if _, isRef := ptrAsRef(p); p.Kind == 2 && !isRef {
				if p.Idx == WHOLE {
					// pointer to whole memory array: pass as ref = id/4096 is not representable; treat as outside subset
					bail("pointer to array passed to contract callee %s", ct.Name)
				}
				bail("pointer to slice element passed to contract callee %s", ct.Name)
			}
		}
	}
	short := ct.Name
	env := &CEnv{c: c, st: st, old: st, lookup: mkLookup(names, args, nil), pkg: names.pkg}
	// implicit: pointer receiver non-nil
	if callee != nil && inModule(callee) && callee.Signature.Recv() != nil {
		if _, isPtr := callee.Signature.Recv().Type().(*types.Pointer); isPtr {
			if r, ok := ptrAsRef(args[0]); ok {
				c.nilCheck(reach, r.T, pos, "receiver of "+callee.Name())
			}
		}
	}
	for k, rq := range ct.Requires {
		f := c.evalBool(env, rq.Expr, rq.Text)
		c.obligeProps("requires", fmt.Sprintf("%s/%d", short, k), reach, f, pos, "precondition of "+short+": "+rq.Text, rq.Props)
	}
	// recursion: variant must decrease
	if callee != nil && callee == c.root && len(ct.Decreases) > 0 && c.entryVariant != nil {
		var now []string
		for _, d := range ct.Decreases {
			now = append(now, c.toBV64(c.evalExpr(env, d.Expr)))
		}
		c.oblige("variant", "rec:"+short, reach, lexLess(now, c.entryVariant), pos, "recursive call decreases "+ct.Decreases[0].Text)
	} else if callee != nil && callee == c.root && len(ct.Decreases) == 0 {
		c.oblige("variant", "rec:"+short, reach, "false", pos, "recursive call without decreases clause")
	}
	old := st.clone()
	topBefore := c.top
	c.applyModifies(ct, env, st, reach)
	var res Val
	if t, ok := resT.(*types.Tuple); ok && t.Len() == 0 {
		res = nil
	} else {
		c.viewResult = len(ct.Views) > 0
		res = c.freshVal(resT, "ret")
		c.viewResult = false
	}
	penv := &CEnv{c: c, st: st, old: old, lookup: mkLookup(names, args, res), pkg: names.pkg, topBefore: topBefore}
	if len(ct.Ghosts) > 0 {
		// ghost results are existentially quantified for the caller: fresh values
		gv := map[string]CVal{}
		for _, g := range ct.Ghosts {
			t := ghostType(g.Type)
			if t == nil {
				cerr("ghost result %s: unsupported type %s", g.Name, g.Type)
			}
			gv[g.Name] = CVal{V: c.freshVal(t, "ghost_"+g.Name), T: t}
		}
		base := penv.lookup
		penv.lookup = func(name string, old bool) (CVal, bool) {
			if v, ok := gv[name]; ok {
				return v, true
			}
			return base(name, old)
		}
	}
	for _, en := range ct.Ensures {
		if c.hidden(en) {
			continue
		}
		c.assume(reach, c.evalBool(penv, en.Expr, en.Text))
	}
	for _, vn := range ct.Views {
		if v, ok := penv.lookup(vn, false); ok {
			if sv, ok := v.V.(SliceV); ok {
				st.views = append(st.views, sv.Arr)
			}
		}
	}
	return res
}

func (c *Ctx) obligeProps(kind, detail, reach, cond string, pos token.Pos, expr string, props []string) {
	n := len(c.obls)
	c.oblige(kind, detail, reach, cond, pos, expr)
	if len(c.obls) > n {
		c.obls[len(c.obls)-1].Props = props
	}
}

// modLoc is a resolved modifies target.
type modLoc struct {
	whole  bool   // whole component(s) with this key prefix
	keyPfx string // heap key prefix (type key + path)
	ref    string
	t      types.Type
	memId  string // for mem(s): array id
	elem   types.Type
	stream string // reader ref
	all    bool
	memAll types.Type // memall(s): every array of s's element type (a callee that may reallocate: append-like dependencies)
	streamId string // streamid(r): identity (sid) and length (lim) of the stream behind reader r (bufio.Reader.Reset)
	streams bool   // "streams": position/peeked/fault of every reader (a function that resets or creates pooled readers)
	foreign string // "foreign": every component that does not belong to this package (types/unexported variables of the package are encapsulated)
}

func (c *Ctx) resolveMod(env *CEnv, m Clause) modLoc {
	if m.Text == "*" {
		return modLoc{all: true}
	}
	if m.Text == "streams" {
		return modLoc{streams: true}
	}
	if m.Text == "foreign" {
		if env.pkg == nil {
			cerr("modifies foreign: no package context (write foreign(pkg))")
		}
		return modLoc{foreign: relPkg(env.pkg.Path())}
	}
	if strings.HasPrefix(m.Text, "foreign(") && strings.HasSuffix(m.Text, ")") {
		return modLoc{foreign: strings.TrimSpace(m.Text[8 : len(m.Text)-1])}
	}
	switch e := m.Expr.(type) {
	case *ast.CallExpr:
		if id, ok := e.Fun.(*ast.Ident); ok {
			switch id.Name {
			case "mem":
				v := c.evalExpr(env, e.Args[0])
				s, ok := v.V.(SliceV)
				if !ok {
					cerr("mem() of non-slice")
				}
				return modLoc{memId: s.Arr, elem: s.Elem}
			case "memall":
				v := c.evalExpr(env, e.Args[0])
				sv, ok := v.V.(SliceV)
				if !ok {
					cerr("memall() of non-slice")
				}
				return modLoc{memAll: sv.Elem}
			case "stream":
				return modLoc{stream: c.streamRef(env, c.evalExpr(env, e.Args[0]))}
			case "streamid":
				return modLoc{streamId: c.streamRef(env, c.evalExpr(env, e.Args[0]))}
			}
		}
	case *ast.SelectorExpr:
		// Type.field (whole component) or expr.field (single location)
		bt := c.evalExprOrType(env, e.X)
		if bt.Ty != nil {
			t := bt.Ty
			st, ok := t.Underlying().(*types.Struct)
			if !ok {
				cerr("modifies %s: not a struct type", m.Text)
			}
			for i := 0; i < st.NumFields(); i++ {
				if st.Field(i).Name() == e.Sel.Name {
					return modLoc{whole: true, keyPfx: typeKey(t) + "." + e.Sel.Name, t: st.Field(i).Type()}
				}
			}
			if gf, ok := c.w.ghostFields[typeKey(t)]; ok {
				if gt, ok := gf[e.Sel.Name]; ok {
					return modLoc{whole: true, keyPfx: "ghost." + typeKey(t) + "." + e.Sel.Name, t: basicTypes[gt]}
				}
			}
			cerr("modifies %s: no such field", m.Text)
		}
		base := c.evalExpr(env, e.X)
		if base.Pkg != nil {
			// global variable
			obj := base.Pkg.Scope().Lookup(e.Sel.Name)
			if v, ok := obj.(*types.Var); ok {
				pk := c.w.prog.Package(v.Pkg())
				g := pk.Members[v.Name()].(*ssa.Global)
				return modLoc{whole: true, keyPfx: "G:" + g.String(), t: v.Type()}
			}
			cerr("modifies %s: not a variable", m.Text)
		}
		pt, ok := base.T.Underlying().(*types.Pointer)
		if !ok {
			// a field of a struct-valued field: p.a.b (keys are flattened paths below the pointer's element type)
			if inner, isSel := e.X.(*ast.SelectorExpr); isSel {
				if stv, isStruct := base.T.Underlying().(*types.Struct); isStruct {
					il := c.resolveMod(env, Clause{Text: m.Text, Expr: inner})
					if il.keyPfx != "" && !il.whole && il.ref != "" {
						for i := 0; i < stv.NumFields(); i++ {
							if stv.Field(i).Name() == e.Sel.Name {
								return modLoc{keyPfx: il.keyPfx + "." + e.Sel.Name, ref: il.ref, t: stv.Field(i).Type()}
							}
						}
						cerr("modifies %s: no such field", m.Text)
					}
				}
			}
			cerr("modifies %s: base is not a pointer", m.Text)
		}
		r, _ := ptrAsRef(base.V)
		sty, ok := pt.Elem().Underlying().(*types.Struct)
		if !ok {
			cerr("modifies %s: not a struct", m.Text)
		}
		for i := 0; i < sty.NumFields(); i++ {
			if sty.Field(i).Name() == e.Sel.Name {
				return modLoc{keyPfx: typeKey(pt.Elem()) + "." + e.Sel.Name, ref: r.T, t: sty.Field(i).Type()}
			}
		}
		if gf, ok := c.w.ghostFields[typeKey(pt.Elem())]; ok {
			if gt, ok := gf[e.Sel.Name]; ok {
				return modLoc{keyPfx: "ghost." + typeKey(pt.Elem()) + "." + e.Sel.Name, ref: r.T, t: basicTypes[gt]}
			}
		}
		cerr("modifies %s: no such field", m.Text)
	case *ast.StarExpr:
		base := c.evalExpr(env, e.X)
		pt, ok := base.T.Underlying().(*types.Pointer)
		if !ok {
			cerr("modifies %s: not a pointer", m.Text)
		}
		r, _ := ptrAsRef(base.V)
		if at, ok := pt.Elem().Underlying().(*types.Array); ok {
			// pointer to a whole array object: its element memory has id 4096*ref
			return modLoc{memId: "(* 4096 " + r.T + ")", elem: at.Elem()}
		}
		return modLoc{keyPfx: typeKey(pt.Elem()), ref: r.T, t: pt.Elem()}
	}
	cerr("unsupported modifies target %q", m.Text)
	return modLoc{}
}

var streamGhosts = []struct{ name, sort string }{{"pos", BV64}, {"peeked", BV64}, {"fault", "Bool"}}

// identity of the stream behind a reader: changed only by re-targeting the reader (Reset)
var streamIdGhosts = []struct{ name, sort string }{{"sid", "Int"}, {"lim", BV64}}

// leafKeys enumerates the heap leaf keys (and array-field memory ids) below a key prefix of type t.
func (c *Ctx) leafKeys(pfx string, t types.Type, f func(key, sort string), arr func(key string, at *types.Array)) {
	if srt, ok := scalarSort(t); ok {
		f(pfx, srt)
		return
	}
	switch u := t.Underlying().(type) {
	case *types.Struct:
		for i := 0; i < u.NumFields(); i++ {
			c.leafKeys(pfx+"."+u.Field(i).Name(), u.Field(i).Type(), f, arr)
		}
	case *types.Slice:
		f(pfx+"#a", "Int")
		f(pfx+"#o", BV64)
		f(pfx+"#l", BV64)
		f(pfx+"#c", BV64)
	case *types.Basic:
		f(pfx+"#d", INNER8)
		f(pfx+"#o", BV64)
		f(pfx+"#l", BV64)
	case *types.Interface:
		f(pfx+"#t", "Int")
		f(pfx+"#r", "Int")
	case *types.Array:
		arr(pfx, u)
	}
}

func (c *Ctx) applyModifies(ct *Contract, env *CEnv, st *State, reach string) {
	if !ct.HasMod {
		c.havocAll(st, reach)
		return
	}
	if ct.Pure {
		return
	}
	var locs []modLoc
	for _, m := range ct.Modifies {
		locs = append(locs, c.resolveMod(env, m))
	}
	for _, l := range locs {
		c.havocLoc(st, l, reach)
	}
	c.bumpTop()
}

func (c *Ctx) havocLoc(st *State, l modLoc, reach string) {
	switch {
	case l.all:
		c.havocAll(st, reach)
	case l.memAll != nil:
		c.havocMemOfElem(st, l.memAll)
	case l.foreign != "":
		c.havocForeign(st, l.foreign, reach)
	case l.streams:
		for _, g := range append(append([]struct{ name, sort string }{}, streamGhosts...), streamIdGhosts...) {
			key := "ghost." + g.name
			c.heapGet(st, key, g.sort)
			st.heap[key] = c.freshHeap(st.hsort[key])
		}
	case l.streamId != "":
		for _, g := range streamIdGhosts {
			key := "ghost." + g.name
			h := c.heapGet(st, key, g.sort)
			nv := c.fresh("g"+g.name, g.sort)
			st.heap[key] = c.name("hs", "(Array Int "+g.sort+")", fmt.Sprintf("(store %s %s %s)", h, l.streamId, nv))
		}
	case l.stream != "":
		for _, g := range streamGhosts {
			key := "ghost." + g.name
			h := c.heapGet(st, key, g.sort)
			nv := c.fresh("g"+g.name, g.sort)
			st.heap[key] = c.name("hs", "(Array Int "+g.sort+")", fmt.Sprintf("(store %s %s %s)", h, l.stream, nv))
		}
	case l.memId != "":
		c.touchAll(st)
		pfx := typeKey(l.elem)
		if srt, ok := scalarSort(l.elem); ok {
			c.memGet(st, pfx, srt)
		}
		for k := range st.mem {
			if k == pfx || strings.HasPrefix(k, pfx+".") || strings.HasPrefix(k, pfx+"#") {
				full := st.hsort["M:"+k]
				inner := strings.TrimSuffix(strings.TrimPrefix(full, "(Array Int "), ")")
				nv := c.fresh("mm", inner)
				st.mem[k] = c.name("ms", full, fmt.Sprintf("(store %s %s %s)", st.mem[k], l.memId, nv))
			}
		}
	case l.whole:
		c.leafKeys(l.keyPfx, l.t, func(key, srt string) {
			c.heapGet(st, key, srt)
			st.heap[key] = c.freshHeap("(Array Int "+srt+")")
		}, func(key string, at *types.Array) {
			c.havocMemOfElem(st, at.Elem())
		})
	default:
		c.leafKeys(l.keyPfx, l.t, func(key, srt string) {
			h := c.heapGet(st, key, srt)
			nv := c.fresh("mod", srt)
			if srt == "Int" {
				c.assume("true", fmt.Sprintf("(>= %s 0)", nv))
			}
			st.heap[key] = c.name("hs", "(Array Int "+srt+")", fmt.Sprintf("(store %s %s %s)", h, l.ref, nv))
		}, func(key string, at *types.Array) {
			c.havocLoc(st, modLoc{memId: arrIdOf(l.ref, key), elem: at.Elem()}, reach)
		})
	}
}

// poolCall models sync.Pool Get/Put on a declared pool: Get yields a non-nil object of the declared
// element type whose CONTENTS ARE UNCONSTRAINED (whatever an earlier user left behind); Put must pass that type.
func (c *Ctx) poolCall(fr *Frame, st *State, reach string, callee *ssa.Function, com *ssa.CallCommon, args []Val, pos token.Pos) (Val, bool) {
	dn := depName(callee)
	if dn != "(*sync.Pool).Get" && dn != "(*sync.Pool).Put" {
		return nil, false
	}
	g, ok := com.Args[0].(*ssa.Global)
	if !ok {
		return nil, false
	}
	key := relPkg(g.Pkg.Pkg.Path()) + "." + g.Name()
	tn, ok := c.w.pools[key]
	if !ok {
		return nil, false
	}
	env := &CEnv{c: c, st: st, pkg: g.Pkg.Pkg}
	t := c.resolveTypeName(env, tn)
	tag := fmt.Sprintf("%d", c.w.typeTag(t))
	c.depsUsed["sync.Pool "+key+": Get returns an exclusively owned, non-nil "+tn+" with unconstrained contents (pool New + all Put sites checked)"] = true
	inv, hasInv := c.w.poolInv[key]
	invEnv := func(ref string) *CEnv {
		return &CEnv{c: c, st: st, old: st, pkg: g.Pkg.Pkg, lookup: func(name string, old bool) (CVal, bool) {
			if name == "it" {
				return CVal{V: Sc{ref, "Int"}, T: t}, true
			}
			return CVal{}, false
		}}
	}
	if dn == "(*sync.Pool).Get" {
		ref := c.fresh("pooled", "Int")
		c.assume("true", fmt.Sprintf("(and (> %s 0) (<= %s %s))", ref, ref, c.top))
		c.pooled = append(c.pooled, ref)
		// exclusively owned: the object is none of the objects the caller passed in
		for _, a := range c.entryArgs {
			switch v := a.(type) {
			case IfaceV:
				c.assume("true", fmt.Sprintf("(not (= %s %s))", ref, v.Ref))
			default:
				if r, ok := ptrAsRef(a); ok && r.S == "Int" {
					c.assume("true", fmt.Sprintf("(not (= %s %s))", ref, r.T))
				}
			}
		}
		if hasInv {
			c.assume(reach, c.evalBool(invEnv(ref), inv.Expr, inv.Text))
		}
		return IfaceV{tag, ref}, true
	}
	if iv, ok := args[1].(IfaceV); ok {
		c.oblige("pool-type", key, reach, fmt.Sprintf("(= %s %s)", iv.Tag, tag), pos, "value put into "+key+" has type "+tn)
		if hasInv {
			c.obligeProps("pool-inv", key, reach, c.evalBool(invEnv(iv.Ref), inv.Expr, inv.Text), pos, "value put into "+key+" satisfies the pool invariant: "+inv.Text, inv.Props)
		}
	}
	return nil, true
}

// transparentEligible: loop-free, small, closure-free functions are inlined at call sites.
func (w *World) transparentEligible(fn *ssa.Function) bool {
	return len(fn.Blocks) > 0 && noLoops(fn) && len(fn.Blocks) <= maxInlineBlocks && len(fn.FreeVars) == 0 && fn.Parent() == nil
}

// constFuncGlobal resolves `*G` where G is a function-typed package variable of the module that is never stored to
// outside package initialisation and whose initialiser is a named function or a method value on a field-less struct value.
func (c *Ctx) constFuncGlobal(v ssa.Value) (*ssa.Function, Val, bool) {
	u, ok := v.(*ssa.UnOp)
	if !ok || u.Op != token.MUL {
		return nil, nil, false
	}
	g, ok := u.X.(*ssa.Global)
	if !ok {
		return nil, nil, false
	}
	gi := c.w.globals[g.String()]
	if gi == nil || gi.stored || gi.init == nil {
		return nil, nil, false
	}
	if _, ok := g.Type().(*types.Pointer).Elem().Underlying().(*types.Signature); !ok {
		return nil, nil, false
	}
	switch e := gi.init.(type) {
	case *ast.Ident:
		if f, ok := gi.info.Uses[e].(*types.Func); ok {
			if fn := c.w.prog.FuncValue(f); fn != nil {
				return fn, nil, true
			}
		}
	case *ast.SelectorExpr:
		if sel, ok := gi.info.Selections[e]; ok && sel.Kind() == types.MethodVal {
			rt := sel.Recv()
			st, ok := rt.Underlying().(*types.Struct)
			if !ok || st.NumFields() != 0 {
				return nil, nil, false
			}
			if fn := c.w.prog.MethodValue(sel); fn != nil {
				return fn, c.zero(rt), true
			}
			return nil, nil, false
		}
		if f, ok := gi.info.Uses[e.Sel].(*types.Func); ok {
			if fn := c.w.prog.FuncValue(f); fn != nil {
				return fn, nil, true
			}
		}
	}
	return nil, nil, false
}

// ghostType: basic types and fixed arrays of basic types ("[64]float64").
func ghostType(s string) types.Type {
	if t := basicTypes[s]; t != nil {
		return t
	}
	if strings.HasPrefix(s, "[") {
		if i := strings.Index(s, "]"); i > 1 {
			var n int64
			if _, err := fmt.Sscanf(s[1:i], "%d", &n); err == nil {
				if et := basicTypes[s[i+1:]]; et != nil {
					return types.NewArray(et, n)
				}
			}
		}
	}
	return nil
}

// ownedKey: does the heap / element-memory component key belong to package pkg (a field of one of its types, one of its
// unexported package variables)? Code outside the package cannot write such a component except through the package's own
// functions (unexported fields / variables; no unsafe, no reflection - an assumption recorded in the evidence).
func ownedKey(k, pkg string) bool {
	k = strings.TrimPrefix(k, "ghost.")
	// component keys use the package NAME (typeKey); cells of address-taken locals of pointer / slice type carry the
	// type's "*" / "[]" prefix
	name := pkg
	if i := strings.LastIndex(name, "/"); i >= 0 {
		name = name[i+1:]
	}
	kk := strings.TrimLeft(k, "*[]")
	if strings.HasPrefix(kk, name+".") {
		return true
	}
	if strings.HasPrefix(k, "G:") {
		g := strings.TrimPrefix(k, "G:")
		if i := strings.LastIndex(g, "."); i >= 0 && strings.HasSuffix(g[:i], "/"+pkg) {
			name := g[i+1:]
			if j := strings.IndexAny(name, ".#"); j >= 0 {
				name = name[:j]
			}
			return name != "" && !(name[0] >= 'A' && name[0] <= 'Z')
		}
	}
	return false
}

// havocForeign forgets every component that package pkg does not own: what a callback from another package may change.
// Stream identity, length and buffer size (immutable attributes of a reader object) are kept; positions are not.
func (c *Ctx) havocForeign(s *State, pkg string, reach string) {
	c.touchAll(s)
	c.depsUsed["callbacks/foreign code: fields of types of package "+pkg+" and its unexported variables are written only by the package itself (language-level encapsulation; no unsafe/reflect)"] = true
	oldU8 := s.mem["uint8"]
	for k := range s.heap {
		if strings.HasPrefix(k, "ghost.const.") || k == "ghost.lim" || k == "ghost.sid" || k == "ghost.bsize" || k == "ghost.data" {
			continue
		}
		if ownedKey(k, pkg) {
			continue
		}
		s.heap[k] = c.freshHeap(s.hsort[k])
	}
	for k := range s.mem {
		if ownedKey(k, pkg) {
			continue
		}
		s.mem[k] = c.fresh("M", s.hsort["M:"+k])
	}
	if oldU8 != "" && s.mem["uint8"] != oldU8 {
		for _, v := range s.views {
			c.assume("true", fmt.Sprintf("(= (select %s %s) (select %s %s))", s.mem["uint8"], v, oldU8, v))
		}
	}
	// components first touched later: unknown (fresh generation), except that owned ones keep theirs
	np := map[string]int{}
	for k, v := range s.pgen {
		np[k] = v
	}
	if _, ok := np["own!"+pkg]; !ok {
		np["own!"+pkg] = s.gen
	}
	s.pgen = np
	s.gen = newGen()
	c.bumpTop()
}
