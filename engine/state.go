// state.go - verification context, symbolic state and the component memory model.
package main

import (
	"sync"
	"sync/atomic"
	"fmt"
	"go/token"
	"go/types"
	"sort"
	"strings"

	"golang.org/x/tools/go/ssa"
)

// Obl is one named proof obligation.
type Obl struct {
	Name   string
	Kind   string // index, slice, nil, div, shift, panic, typeassert, make, requires, ensures, inv-init, inv-pres, variant, frame, lemma, H-init, H-pres, ...
	Props  []string
	Reach  string
	Cond   string
	NDecl  int
	NAsm   int
	Pos    token.Position
	Expr   string // human-readable guarded expression / clause text
	Fn     string
	Inline string // inlining chain
	HId    string // houdini candidate id
	splitDepth int
	Parts  []Obl  // a grouped obligation (conjunction): solved individually only if the group is not discharged at once
}

// Ctx is the per-function VC generation context.
type Ctx struct {
	w       *World
	decls   []string
	asms    []string
	obls    []Obl
	n       int
	fset    *token.FileSet
	root    *ssa.Function
	notes   map[string]int
	dropped map[string]bool
	hcount  map[string]bool
	useH    bool
	noName  int
	ordinal map[string]int
	inlineChain []string
	top     string // current allocation top term (Int)
	nalloc  int
	strLits map[string]string
	depsUsed map[string]bool
	callees  map[string]bool // in-module contract callees used
	unknownCalls map[string]int
	curFn   *ssa.Function
	entryState *State
	entryArgs  []Val
	contract *Contract
	inputs  []inputVar // named symbolic inputs for replay
	oblFilter func(kind string) bool
	hcands  map[int][]cand
	recoverFrame bool
	variantEntry map[int][]autoMeasure
	constArrVals map[string]Val
	boxed   map[string]boxedVal
	ufDecl  map[string]bool
	allocSites []allocSite
	specMode bool
	quantified bool
	entryVariant []string
	nPre, nPreDecl int
	noDivObl int
	streamInv map[string]bool
	pooled  []string
	specSigs map[string]specSig
	defDecl map[string]bool
	foralls []forallRec
	skn     int
	rootFrame *Frame
	defs    map[string]string // named definitions (name -> term), for syntactic frame checks
	frameLocals bool
	localObjs []string // references of the heap objects of address-taken locals allocated so far (function-private)
	refBound map[string]bool
	reachParts map[string][]string // merged path condition -> the edge conditions it is the disjunction of
	pendingBindings []Val     // captured-variable values for the closure body about to be executed
	viewResult bool           // the slice being created is a view into a ghost stream array
	frameTop string           // allocation horizon used by loop frame conditions
	skipFrameInit bool
	declared     map[string]bool
	loopEntryEnv map[int]*CEnv // per loop ordinal: contract environment over the state in which the loop was entered
	loopHeadEnv map[int]*CEnv // per loop ordinal: contract environment over the state at the head of the current iteration
	edgeConds []edgeCond // path conditions of the CFG edges of the root function (dead-edge diagnostic)
	loopTop  map[int]string   // loop header -> allocation horizon at the loop head
}

type inputVar struct {
	Name string // param name / path
	Val  Val
	T    types.Type
}

// declareOnce adds a global declaration (uninterpreted ghost functions) once per verification context.
func (c *Ctx) declareOnce(decl string) {
	if c.declared == nil {
		c.declared = map[string]bool{}
	}
	if !c.declared[decl] {
		c.declared[decl] = true
		c.decls = append(c.decls, decl)
	}
}

func (c *Ctx) fresh(pfx, sort string) string {
	c.n++
	nm := fmt.Sprintf("%s_%d", sanitizeSym(pfx), c.n)
	c.decls = append(c.decls, fmt.Sprintf("(declare-const %s %s)", nm, sort))
	return nm
}

// freshHeap declares a fresh heap component. Modelling convention: the fields of the nil object (reference 0) are zero
// (nil pointers, empty slices/interfaces); a nil dereference is an obligation of its own, so the convention is never
// observable by the program, but it keeps unrolled pointer chains in contracts (b.outer.outer...) nil-terminated.
func (c *Ctx) freshHeap(sort string) string {
	nm := c.fresh("H", sort)
	c.nilRow(nm, sort)
	return nm
}

func (c *Ctx) nilRow(nm, sort string) {
	if sort == "(Array Int Int)" {
		c.assume("true", fmt.Sprintf("(= (select %s 0) 0)", nm))
	}
}

func sanitizeSym(s string) string {
	return strings.Map(func(r rune) rune {
		if (r >= 'a' && r <= 'z') || (r >= 'A' && r <= 'Z') || (r >= '0' && r <= '9') || r == '_' {
			return r
		}
		return '_'
	}, s)
}

// name introduces a definition for a large term (keeps queries DAG-shaped).
func (c *Ctx) name(pfx, sort, term string) string {
	if len(term) < 40 || c.noName > 0 {
		return term
	}
	c.n++
	nm := fmt.Sprintf("%s_%d", pfx, c.n)
	c.decls = append(c.decls, fmt.Sprintf("(define-fun %s () %s %s)", nm, sort, term))
	if c.defs == nil {
		c.defs = map[string]string{}
	}
	c.defs[nm] = term
	return nm
}
func (c *Ctx) assume(reach, f string) {
	if f == "true" {
		return
	}
	c.asms = append(c.asms, imp(reach, f))
}

// oblige records an obligation and then assumes it (partial-correctness continuation).
func (c *Ctx) oblige(kind, detail, reach, cond string, pos token.Pos, expr string) {
	if c.specMode {
		return
	}
	if cond == "true" {
		c.notes["trivial-obligations"]++
	}
	key := kind
	ord := c.ordinal[key+"|"+strings.Join(c.inlineChain, ">")]
	c.ordinal[key+"|"+strings.Join(c.inlineChain, ">")]++
	nm := fmt.Sprintf("%s#%s", fnName(c.root), kind)
	if detail != "" {
		nm += ":" + detail
	}
	if len(c.inlineChain) > 0 {
		nm += "@inl:" + strings.Join(c.inlineChain, ">") + fmt.Sprintf("/%d", ord)
	} else {
		nm += fmt.Sprintf("@%d", ord)
	}
	o := Obl{Name: nm, Kind: kind, Reach: reach, Cond: cond, NDecl: len(c.decls), NAsm: len(c.asms), Expr: expr, Fn: fnName(c.root), Inline: strings.Join(c.inlineChain, ">")}
	if pos.IsValid() {
		o.Pos = c.fset.Position(pos)
	}
	c.obls = append(c.obls, o)
	c.assume(reach, cond)
}

// ---------- state ----------

type State struct {
	locals map[*ssa.Alloc]Val
	heap   map[string]string // component key -> term (Array Int leafsort)
	mem    map[string]string // elem leaf key -> term (Array Int (Array bv64 leafsort))
	hsort  map[string]string // shared: key -> sort
	views  []string          // array ids of stream views whose contents survive havoc
	// generation of the default (not yet materialised) components: a component first touched after a havoc must not
	// be identified with its entry value (H0_key), so havocs bump the generation that names lazily created components.
	gen  int
	pgen map[string]int // key prefix ("M:"+prefix for element memories) -> generation of a partial havoc
}

func newState() *State {
	return &State{locals: map[*ssa.Alloc]Val{}, heap: map[string]string{}, mem: map[string]string{}, hsort: map[string]string{}}
}

var genCounter int

func newGen() int { return int(atomic.AddInt64(&genCounter64, 1)) }

var genCounter64 int64

func keyHasPrefix(k, p string) bool {
	return k == p || strings.HasPrefix(k, p+".") || strings.HasPrefix(k, p+"#")
}

// defGen: generation that names component key (hkey is "M:"+key for element memories) when it is first touched in s.
func (s *State) defGen(hkey string) int {
	g := s.gen
	// components owned by a package keep the generation they had before a `foreign` havoc ("own!pkg" entries)
	for p, pg := range s.pgen {
		if strings.HasPrefix(p, "own!") && ownedKey(strings.TrimPrefix(hkey, "M:"), p[4:]) && pg < g {
			g = pg
		}
	}
	for p, pg := range s.pgen {
		if strings.HasPrefix(p, "own!") {
			continue
		}
		if pg <= g {
			continue
		}
		if strings.HasPrefix(p, "M:") != strings.HasPrefix(hkey, "M:") {
			continue
		}
		if strings.HasPrefix(p, "M:") {
			if keyHasPrefix(hkey[2:], p[2:]) {
				g = pg
			}
		} else if keyHasPrefix(hkey, p) {
			g = pg
		}
	}
	return g
}

// defName returns (declaring it if needed) the default term of a component in state s.
func (c *Ctx) defName(s *State, hkey string) string {
	g := s.defGen(hkey)
	var nm string
	if strings.HasPrefix(hkey, "M:") {
		nm = fmt.Sprintf("M%d_%s", g, sanitizeSym(hkey[2:]))
	} else {
		nm = fmt.Sprintf("H%d_%s", g, sanitizeSym(hkey))
	}
	if c.defDecl == nil {
		c.defDecl = map[string]bool{}
	}
	if !c.defDecl[nm] {
		c.defDecl[nm] = true
		c.decls = append(c.decls, fmt.Sprintf("(declare-const %s %s)", nm, s.hsort[hkey]))
		if !strings.HasPrefix(hkey, "M:") {
			c.nilRow(nm, s.hsort[hkey])
		}
	}
	return nm
}

func (s *State) clone() *State {
	n := &State{locals: map[*ssa.Alloc]Val{}, heap: map[string]string{}, mem: map[string]string{}, hsort: s.hsort, views: append([]string{}, s.views...), gen: s.gen}
	if len(s.pgen) > 0 {
		n.pgen = map[string]int{}
		for k, v := range s.pgen {
			n.pgen[k] = v
		}
	}
	for k, v := range s.locals {
		n.locals[k] = v
	}
	for k, v := range s.heap {
		n.heap[k] = v
	}
	for k, v := range s.mem {
		n.mem[k] = v
	}
	return n
}

// The initial heap/mem components are global uninterpreted constants shared by
// all states of one Ctx ("H0_key"), so that states forked before first use agree.
func (c *Ctx) heapGet(s *State, key, sort string) string {
	if t, ok := s.heap[key]; ok {
		return t
	}
	full := "(Array Int " + sort + ")"
	if _, ok := s.hsort[key]; !ok {
		s.hsort[key] = full
	}
	nm := c.defName(s, key)
	s.heap[key] = nm
	return nm
}
func (c *Ctx) memGet(s *State, key, sort string) string {
	if t, ok := s.mem[key]; ok {
		return t
	}
	full := "(Array Int (Array " + BV64 + " " + sort + "))"
	if _, ok := s.hsort["M:"+key]; !ok {
		s.hsort["M:"+key] = full
	}
	nm := c.defName(s, "M:"+key)
	s.mem[key] = nm
	return nm
}

// touch makes sure every known component is present in the state map (so havoc/merge see it).
func (c *Ctx) touchAll(s *State) {
	for k := range s.hsort {
		if strings.HasPrefix(k, "M:") {
			if _, ok := s.mem[k[2:]]; !ok {
				s.mem[k[2:]] = c.defName(s, k)
			}
		} else if _, ok := s.heap[k]; !ok {
			s.heap[k] = c.defName(s, k)
		}
	}
}

// bumpTop advances the allocation horizon (objects created by callees / earlier iterations).
func (c *Ctx) bumpTop() {
	nt := c.fresh("top", "Int")
	c.assume("true", fmt.Sprintf("(>= %s (+ %s 1000))", nt, c.top))
	c.top = nt
	c.nalloc = 0
}

func (c *Ctx) newRef() string {
	c.nalloc++
	return fmt.Sprintf("(+ %s %d)", c.top, c.nalloc)
}

// havocAll forgets all heap and memory contents (unknown call), but keeps
// the contents of registered stream views (immutable ghost stream data).
func (c *Ctx) havocAll(s *State, reach string) {
	c.touchAll(s)
	oldU8 := s.mem["uint8"]
	for k := range s.heap {
		if strings.HasPrefix(k, "ghost.const.") {
			continue
		}
		s.heap[k] = c.freshHeap(s.hsort[k])
	}
	for k := range s.mem {
		s.mem[k] = c.fresh("M", s.hsort["M:"+k])
	}
	if oldU8 != "" {
		for _, v := range s.views {
			c.assume("true", fmt.Sprintf("(= (select %s %s) (select %s %s))", s.mem["uint8"], v, oldU8, v))
		}
	}
	s.gen = newGen()
	s.pgen = nil
	c.bumpTop()
}

func (c *Ctx) mergeStates(conds []string, sts []*State) *State {
	if len(sts) > 1 {
		same := true
		for _, s := range sts[1:] {
			if s.gen != sts[0].gen || len(s.pgen) != len(sts[0].pgen) {
				same = false
			}
			for k, v := range s.pgen {
				if sts[0].pgen[k] != v {
					same = false
				}
			}
		}
		for _, s := range sts {
			c.touchAll(s)
		}
		if !same {
			// components first touched after this join get a fresh default (over-approximates every branch)
			out := c.mergeStates2(conds, sts)
			out.gen = newGen()
			out.pgen = nil
			return out
		}
	}
	return c.mergeStates2(conds, sts)
}

func (c *Ctx) mergeStates2(conds []string, sts []*State) *State {
	out := sts[0].clone()
	for i := 1; i < len(sts); i++ {
		for k, v := range sts[i].locals {
			if o, ok := out.locals[k]; ok {
				out.locals[k] = c.ite(conds[i], v, o)
			} else {
				out.locals[k] = v
			}
		}
		hk := map[string]bool{}
		for k := range sts[i].heap {
			hk[k] = true
		}
		for k := range out.heap {
			hk[k] = true
		}
		for k := range hk {
			v, ok1 := sts[i].heap[k]
			o, ok2 := out.heap[k]
			if !ok1 {
				v = c.defName(sts[i], k)
			}
			if !ok2 {
				o = c.defName(out, k)
			}
			if o != v {
				out.heap[k] = c.mergeArr("hm", out.hsort[k], conds[i], v, o)
			} else {
				out.heap[k] = v
			}
		}
		mk := map[string]bool{}
		for k := range sts[i].mem {
			mk[k] = true
		}
		for k := range out.mem {
			mk[k] = true
		}
		for k := range mk {
			v, ok1 := sts[i].mem[k]
			o, ok2 := out.mem[k]
			if !ok1 {
				v = c.defName(sts[i], "M:"+k)
			}
			if !ok2 {
				o = c.defName(out, "M:"+k)
			}
			if o != v {
				out.mem[k] = c.mergeArr("mm", out.hsort["M:"+k], conds[i], v, o)
			} else {
				out.mem[k] = v
			}
		}
		seen := map[string]bool{}
		for _, v := range out.views {
			seen[v] = true
		}
		for _, v := range sts[i].views {
			if !seen[v] {
				out.views = append(out.views, v)
			}
		}
	}
	return out
}

func (c *Ctx) ite(cond string, a, b Val) Val {
	return zipLeaves(a, b, func(p, q Sc) Sc {
		if p.T == q.T {
			return p
		}
		return Sc{c.name("m", p.S, fmt.Sprintf("(ite %s %s %s)", cond, p.T, q.T)), p.S}
	})
}

func (c *Ctx) sto(a Val, idx string, v Val) Val {
	return zipLeaves(a, v, func(p, q Sc) Sc {
		return Sc{c.name("st", p.S, fmt.Sprintf("(store %s %s %s)", p.T, idx, q.T)), p.S}
	})
}

// ---------- typed load/store ----------

func typeKey(t types.Type) string {
	if b, ok := t.(*types.Basic); ok {
		switch b.Kind() {
		case types.Uint8:
			return "uint8"
		case types.Int32:
			return "int32"
		}
	}
	return types.TypeString(t, func(p *types.Package) string { return p.Name() })
}

var arrFieldIds = map[string]int{}
var arrFieldMu sync.Mutex

// arrIdOf gives the memory array id of an array-typed field (key) of object ref.
func arrIdOf(ref, key string) string {
	arrFieldMu.Lock()
	defer arrFieldMu.Unlock()
	k, ok := arrFieldIds[key]
	if !ok {
		k = len(arrFieldIds) + 1
		if k >= 4096 {
			bail("too many array fields")
		}
		arrFieldIds[key] = k
	}
	return fmt.Sprintf("(+ (* 4096 %s) %d)", ref, k)
}

type objLoc struct {
	kind   int // 1 heap, 2 mem
	keyPfx string
	ref    string
	arrId  string
	idx    string
}

func (c *Ctx) leafGet(s *State, l objLoc, path, sort string) string {
	if l.kind == 1 {
		return fmt.Sprintf("(select %s %s)", c.heapGet(s, l.keyPfx+path, sort), l.ref)
	}
	return fmt.Sprintf("(select (select %s %s) %s)", c.memGet(s, l.keyPfx+path, sort), l.arrId, l.idx)
}
func (c *Ctx) leafSet(s *State, l objLoc, path, sort, term string) {
	if l.kind == 1 {
		key := l.keyPfx + path
		h := c.heapGet(s, key, sort)
		s.heap[key] = c.name("hs", "(Array Int "+sort+")", fmt.Sprintf("(store %s %s %s)", h, l.ref, term))
		return
	}
	key := l.keyPfx + path
	m := c.memGet(s, key, sort)
	s.mem[key] = c.name("ms", "(Array Int (Array "+BV64+" "+sort+"))", fmt.Sprintf("(store %s %s (store (select %s %s) %s %s))", m, l.arrId, m, l.arrId, l.idx, term))
}

func (c *Ctx) loadAt(s *State, l objLoc, t types.Type, path string) Val {
	if srt, ok := scalarSort(t); ok {
		term := c.leafGet(s, l, path, srt)
		if srt == "Int" && c.noName == 0 {
			// heap well-formedness: a reference stored in the heap denotes nil or an object allocated so far
			if c.refBound == nil {
				c.refBound = map[string]bool{}
			}
			// (allocated so far = the objects below the current horizon plus those allocated since it was last moved)
			hi := fmt.Sprintf("(+ %s %d)", c.top, c.nalloc)
			if key := term + "|" + hi; !c.refBound[key] {
				c.refBound[key] = true
				c.assume("true", fmt.Sprintf("(and (>= %s 0) (<= %s %s))", term, term, hi))
			}
		}
		return Sc{term, srt}
	}
	switch u := t.Underlying().(type) {
	case *types.Struct:
		sv := StructV{}
		for i := 0; i < u.NumFields(); i++ {
			sv.F = append(sv.F, c.loadAt(s, l, u.Field(i).Type(), path+"."+u.Field(i).Name()))
		}
		return sv
	case *types.Slice:
		return SliceV{c.leafGet(s, l, path+"#a", "Int"), c.leafGet(s, l, path+"#o", BV64), c.leafGet(s, l, path+"#l", BV64), c.leafGet(s, l, path+"#c", BV64), u.Elem()}
	case *types.Basic:
		if u.Info()&types.IsString != 0 {
			return StrV{c.leafGet(s, l, path+"#d", INNER8), c.leafGet(s, l, path+"#o", BV64), c.leafGet(s, l, path+"#l", BV64)}
		}
	case *types.Interface:
		return IfaceV{c.leafGet(s, l, path+"#t", "Int"), c.leafGet(s, l, path+"#r", "Int")}
	case *types.Array:
		if l.kind != 1 {
			bail("nested array in memory element")
		}
		id := arrIdOf(l.ref, l.keyPfx+path)
		return ArrV{A: c.loadLiftedMem(s, id, u.Elem(), typeKey(u.Elem()), ""), N: u.Len(), Elem: u.Elem()}
	}
	bail("loadAt: %s", t)
	return nil
}

// loadLiftedMem reads a whole memory array (all leaves) as a lifted value.
func (c *Ctx) loadLiftedMem(s *State, id string, t types.Type, keyPfx, path string) Val {
	leaf := func(p, srt string) Sc {
		return Sc{fmt.Sprintf("(select %s %s)", c.memGet(s, keyPfx+p, srt), id), "(Array " + BV64 + " " + srt + ")"}
	}
	if srt, ok := scalarSort(t); ok {
		return leaf(path, srt)
	}
	switch u := t.Underlying().(type) {
	case *types.Struct:
		sv := StructV{}
		for i := 0; i < u.NumFields(); i++ {
			sv.F = append(sv.F, c.loadLiftedMem(s, id, u.Field(i).Type(), keyPfx, path+"."+u.Field(i).Name()))
		}
		return sv
	case *types.Slice:
		return SliceV{leaf(path+"#a", "Int").T, leaf(path+"#o", BV64).T, leaf(path+"#l", BV64).T, leaf(path+"#c", BV64).T, u.Elem()}
	case *types.Basic:
		if u.Info()&types.IsString != 0 {
			return StrV{leaf(path+"#d", INNER8).T, leaf(path+"#o", BV64).T, leaf(path+"#l", BV64).T}
		}
	case *types.Interface:
		return IfaceV{leaf(path+"#t", "Int").T, leaf(path+"#r", "Int").T}
	}
	bail("loadLiftedMem: %s", t)
	return nil
}

func (c *Ctx) storeLiftedMem(s *State, id string, v Val, t types.Type, keyPfx, path string) {
	leaf := func(p, srt, term string) {
		key := keyPfx + p
		m := c.memGet(s, key, srt)
		s.mem[key] = c.name("ms", "(Array Int (Array "+BV64+" "+srt+"))", fmt.Sprintf("(store %s %s %s)", m, id, term))
	}
	switch x := v.(type) {
	case Sc:
		leaf(path, innerSort(x.S), x.T)
	case StructV:
		u := t.Underlying().(*types.Struct)
		for i, e := range x.F {
			c.storeLiftedMem(s, id, e, u.Field(i).Type(), keyPfx, path+"."+u.Field(i).Name())
		}
	case SliceV:
		leaf(path+"#a", "Int", x.Arr)
		leaf(path+"#o", BV64, x.Off)
		leaf(path+"#l", BV64, x.Len)
		leaf(path+"#c", BV64, x.Cap)
	case StrV:
		leaf(path+"#d", INNER8, x.Data)
		leaf(path+"#o", BV64, x.Off)
		leaf(path+"#l", BV64, x.Len)
	case IfaceV:
		leaf(path+"#t", "Int", x.Tag)
		leaf(path+"#r", "Int", x.Ref)
	default:
		bail("storeLiftedMem %T", v)
	}
}

func (c *Ctx) storeAt(s *State, l objLoc, t types.Type, path string, v Val) {
	switch x := v.(type) {
	case Sc:
		srt, _ := scalarSort(t)
		if srt == "" {
			srt = x.S
		}
		c.leafSet(s, l, path, srt, x.T)
	case PtrV:
		r, ok := ptrAsRef(x)
		if !ok {
			bail("store of interior/local pointer into memory")
		}
		c.leafSet(s, l, path, "Int", r.T)
	case StructV:
		u := t.Underlying().(*types.Struct)
		for i, e := range x.F {
			c.storeAt(s, l, u.Field(i).Type(), path+"."+u.Field(i).Name(), e)
		}
	case SliceV:
		c.leafSet(s, l, path+"#a", "Int", x.Arr)
		c.leafSet(s, l, path+"#o", BV64, x.Off)
		c.leafSet(s, l, path+"#l", BV64, x.Len)
		c.leafSet(s, l, path+"#c", BV64, x.Cap)
	case StrV:
		c.leafSet(s, l, path+"#d", INNER8, x.Data)
		c.leafSet(s, l, path+"#o", BV64, x.Off)
		c.leafSet(s, l, path+"#l", BV64, x.Len)
	case IfaceV:
		c.leafSet(s, l, path+"#t", "Int", x.Tag)
		c.leafSet(s, l, path+"#r", "Int", x.Ref)
	case ArrV:
		if l.kind != 1 {
			bail("nested array store in memory element")
		}
		u := t.Underlying().(*types.Array)
		id := arrIdOf(l.ref, l.keyPfx+path)
		c.storeLiftedMem(s, id, x.A, u.Elem(), typeKey(u.Elem()), "")
	default:
		bail("storeAt %T", v)
	}
}

// project / update a local value along a path
func (c *Ctx) project(v Val, t types.Type, path []PathEl) (Val, types.Type) {
	for _, p := range path {
		if p.Field >= 0 {
			st := t.Underlying().(*types.Struct)
			v = v.(StructV).F[p.Field]
			t = st.Field(p.Field).Type()
		} else {
			at := t.Underlying().(*types.Array)
			v = sel(v.(ArrV).A, p.Idx)
			t = at.Elem()
		}
	}
	return v, t
}
func (c *Ctx) update(v Val, t types.Type, path []PathEl, nv Val) Val {
	if len(path) == 0 {
		return nv
	}
	p := path[0]
	if p.Field >= 0 {
		st := t.Underlying().(*types.Struct)
		sv := v.(StructV)
		o := StructV{F: append([]Val{}, sv.F...)}
		o.F[p.Field] = c.update(sv.F[p.Field], st.Field(p.Field).Type(), path[1:], nv)
		return o
	}
	at := t.Underlying().(*types.Array)
	av := v.(ArrV)
	elem := sel(av.A, p.Idx)
	ne := c.update(elem, at.Elem(), path[1:], nv)
	return ArrV{A: c.sto(av.A, p.Idx, ne), N: av.N, Elem: av.Elem}
}

func fieldPathStr(root types.Type, path []PathEl) (string, types.Type) {
	s := ""
	t := root
	for _, p := range path {
		if p.Field < 0 {
			bail("array index inside heap path")
		}
		st := t.Underlying().(*types.Struct)
		s += "." + st.Field(p.Field).Name()
		t = st.Field(p.Field).Type()
	}
	return s, t
}

func (p PtrV) keyPfx() string {
	if p.Global != "" {
		return "G:" + p.Global
	}
	return typeKey(p.Root)
}

func (c *Ctx) load(s *State, p PtrV) Val {
	switch p.Kind {
	case 0:
		a := p.Alloc.(*ssa.Alloc)
		root := a.Type().(*types.Pointer).Elem()
		v, ok := s.locals[a]
		if !ok {
			v = c.freshVal(root, "loc_"+a.Comment)
			s.locals[a] = v
		}
		r, _ := c.project(v, root, p.Path)
		return r
	case 1:
		if p.Global != "" {
			if cv, ok := c.constGlobal(s, p); ok {
				return cv
			}
		}
		base, t := fieldPathStr(p.Root, p.Path)
		return c.loadAt(s, objLoc{kind: 1, keyPfx: p.keyPfx(), ref: p.Ref}, t, base)
	case 2:
		if p.Idx == WHOLE {
			at := p.Elem.Underlying().(*types.Array)
			return ArrV{A: c.loadLiftedMem(s, p.ArrId, at.Elem(), typeKey(at.Elem()), ""), N: at.Len(), Elem: at.Elem()}
		}
		if lv, ok := c.constArrVals["cslice:"+p.ArrId]; ok && lv != nil && len(p.Path) == 0 {
			// element of an effectively-constant package-level slice literal
			return sel(lv, p.Idx)
		}
		base, t := fieldPathStr(p.Root, p.Path)
		return c.loadAt(s, objLoc{kind: 2, keyPfx: typeKey(p.Root), arrId: p.ArrId, idx: p.Idx}, t, base)
	}
	bail("load kind")
	return nil
}

func (c *Ctx) store(s *State, p PtrV, v Val) {
	switch p.Kind {
	case 0:
		a := p.Alloc.(*ssa.Alloc)
		root := a.Type().(*types.Pointer).Elem()
		cur, ok := s.locals[a]
		if !ok && len(p.Path) > 0 {
			cur = c.freshVal(root, "loc_"+a.Comment)
		}
		if pv, isP := v.(PtrV); isP {
			if r, ok := ptrAsRef(pv); ok {
				v = r
			}
		}
		s.locals[a] = c.update(cur, root, p.Path, v)
	case 1:
		base, t := fieldPathStr(p.Root, p.Path)
		c.storeAt(s, objLoc{kind: 1, keyPfx: p.keyPfx(), ref: p.Ref}, t, base, v)
	case 2:
		if p.Idx == WHOLE {
			at := p.Elem.Underlying().(*types.Array)
			c.storeLiftedMem(s, p.ArrId, v.(ArrV).A, at.Elem(), typeKey(at.Elem()), "")
			return
		}
		base, t := fieldPathStr(p.Root, p.Path)
		c.storeAt(s, objLoc{kind: 2, keyPfx: typeKey(p.Root), arrId: p.ArrId, idx: p.Idx}, t, base, v)
	default:
		bail("store kind")
	}
}

// ---------- fresh / zero values ----------

func (c *Ctx) assumeSliceWF(s SliceV) {
	c.assume("true", fmt.Sprintf("(and (bvsle %s %s) (bvsle %s %s) (bvsle %s #x0000ffffffffffff) (bvsle %s %s) (bvsle %s #x0000ffffffffffff) (>= %s 0) (<= %s (+ (* 4096 %s) 4095)))", i64(0), s.Len, s.Len, s.Cap, s.Cap, i64(0), s.Off, s.Off, s.Arr, s.Arr, c.top))
}
func (c *Ctx) assumeStrWF(s StrV) {
	c.assume("true", fmt.Sprintf("(and (bvsle %s %s) (bvsle %s #x0000ffffffffffff) (bvsle %s %s) (bvsle %s #x0000ffffffffffff))", i64(0), s.Len, s.Len, i64(0), s.Off, s.Off))
}

// freshVal declares a fresh symbolic value of Go type t with its type invariants.
func (c *Ctx) freshVal(t types.Type, pfx string) Val {
	if s, ok := scalarSort(t); ok {
		nm := c.fresh(pfx, s)
		if s == "Int" {
			c.assume("true", fmt.Sprintf("(and (>= %s 0) (<= %s %s))", nm, nm, c.top))
		}
		return Sc{nm, s}
	}
	switch u := t.Underlying().(type) {
	case *types.Basic:
		if u.Info()&types.IsString != 0 {
			s := StrV{c.fresh(pfx+"_sd", INNER8), c.fresh(pfx+"_so", BV64), c.fresh(pfx+"_sl", BV64)}
			c.assumeStrWF(s)
			return s
		}
	case *types.Slice:
		s := SliceV{c.fresh(pfx+"_a", "Int"), c.fresh(pfx+"_o", BV64), c.fresh(pfx+"_l", BV64), c.fresh(pfx+"_c", BV64), u.Elem()}
		c.assumeSliceWF(s)
		// array ids 1..4095 are reserved for the immutable ghost stream arrays (sid): program slices never alias them,
		// only the views returned by Peek-like dependency contracts do
		if c.viewResult {
			c.assume("true", fmt.Sprintf("(and (>= %s 1) (<= %s 4095))", s.Arr, s.Arr))
		} else {
			c.assume("true", fmt.Sprintf("(or (= %s 0) (>= %s 4096))", s.Arr, s.Arr))
		}
		return s
	case *types.Interface:
		v := IfaceV{c.fresh(pfx+"_it", "Int"), c.fresh(pfx+"_ir", "Int")}
		c.assume("true", fmt.Sprintf("(and (>= %s 0) (>= %s 0) (<= %s %s) (= (= %s 0) (= %s 0)))", v.Tag, v.Ref, v.Ref, c.top, v.Tag, v.Ref))
		return v
	case *types.Struct:
		sv := StructV{}
		for i := 0; i < u.NumFields(); i++ {
			sv.F = append(sv.F, c.freshVal(u.Field(i).Type(), pfx+"_"+u.Field(i).Name()))
		}
		return sv
	case *types.Array:
		return ArrV{A: c.freshLifted(u.Elem(), pfx, 1), N: u.Len(), Elem: u.Elem()}
	case *types.Tuple:
		tv := TupleV{}
		for i := 0; i < u.Len(); i++ {
			tv.V = append(tv.V, c.freshVal(u.At(i).Type(), fmt.Sprintf("%s_r%d", pfx, i)))
		}
		return tv
	}
	bail("freshVal: type %s", t)
	return nil
}

func (c *Ctx) freshLifted(t types.Type, pfx string, depth int) Val {
	if s, ok := scalarSort(t); ok {
		return Sc{c.fresh(pfx+"_arr", wrapArr(s, depth)), wrapArr(s, depth)}
	}
	switch u := t.Underlying().(type) {
	case *types.Struct:
		sv := StructV{}
		for i := 0; i < u.NumFields(); i++ {
			sv.F = append(sv.F, c.freshLifted(u.Field(i).Type(), pfx+"_"+u.Field(i).Name(), depth))
		}
		return sv
	case *types.Array:
		return ArrV{A: c.freshLifted(u.Elem(), pfx, depth+1), N: u.Len(), Elem: u.Elem()}
	case *types.Slice:
		f := func(n, s string) string { return c.fresh(pfx+n, wrapArr(s, depth)) }
		return SliceV{f("_a", "Int"), f("_o", BV64), f("_l", BV64), f("_c", BV64), u.Elem()}
	case *types.Basic:
		if u.Info()&types.IsString != 0 {
			f := func(n, s string) string { return c.fresh(pfx+n, wrapArr(s, depth)) }
			return StrV{f("_sd", INNER8), f("_so", BV64), f("_sl", BV64)}
		}
	case *types.Interface:
		f := func(n, s string) string { return c.fresh(pfx+n, wrapArr(s, depth)) }
		return IfaceV{f("_it", "Int"), f("_ir", "Int")}
	}
	bail("freshLifted: type %s", t)
	return nil
}

// freshLike makes a fresh value shaped like v (used for havoc).
func (c *Ctx) freshLike(v Val, pfx string) Val {
	switch x := v.(type) {
	case SliceV:
		s := SliceV{c.fresh(pfx+"_a", "Int"), c.fresh(pfx+"_o", BV64), c.fresh(pfx+"_l", BV64), c.fresh(pfx+"_c", BV64), x.Elem}
		c.assumeSliceWF(s)
		return s
	case StrV:
		s := StrV{c.fresh(pfx+"_sd", INNER8), c.fresh(pfx+"_so", BV64), c.fresh(pfx+"_sl", BV64)}
		c.assumeStrWF(s)
		return s
	case IfaceV:
		s := IfaceV{c.fresh(pfx+"_it", "Int"), c.fresh(pfx+"_ir", "Int")}
		c.assume("true", fmt.Sprintf("(and (>= %s 0) (>= %s 0) (= (= %s 0) (= %s 0)))", s.Tag, s.Ref, s.Tag, s.Ref))
		return s
	case PtrV:
		if r, ok := ptrAsRef(x); ok {
			n := c.fresh(pfx, r.S)
			c.assume("true", fmt.Sprintf("(>= %s 0)", n))
			return Sc{n, "Int"}
		}
		return x
	case TupleV:
		o := TupleV{}
		for _, e := range x.V {
			o.V = append(o.V, c.freshLike(e, pfx))
		}
		return o
	case StructV:
		o := StructV{}
		for _, e := range x.F {
			o.F = append(o.F, c.freshLike(e, pfx))
		}
		return o
	case ArrV:
		return ArrV{A: mapLeaves(x.A, func(s Sc) Sc { return Sc{c.fresh(pfx, s.S), s.S} }), N: x.N, Elem: x.Elem}
	case Sc:
		n := c.fresh(pfx, x.S)
		if x.S == "Int" {
			c.assume("true", fmt.Sprintf("(>= %s 0)", n))
		}
		return Sc{n, x.S}
	case nil:
		return nil
	}
	bail("freshLike %T", v)
	return nil
}

func (c *Ctx) zero(t types.Type) Val {
	if s, ok := scalarSort(t); ok {
		switch {
		case isBV(s):
			w, _, _ := bvw(t)
			return Sc{bvlit(w, 0), s}
		case s == "Bool":
			return Sc{"false", s}
		case s == "Int":
			return Sc{"0", s}
		case s == "F32":
			return Sc{"(_ +zero 8 24)", s}
		case s == "F64":
			return Sc{"(_ +zero 11 53)", s}
		}
	}
	switch u := t.Underlying().(type) {
	case *types.Struct:
		sv := StructV{}
		for i := 0; i < u.NumFields(); i++ {
			sv.F = append(sv.F, c.zero(u.Field(i).Type()))
		}
		return sv
	case *types.Slice:
		return SliceV{"0", i64(0), i64(0), i64(0), u.Elem()}
	case *types.Basic:
		if u.Info()&types.IsString != 0 {
			return StrV{"EMPTY8", i64(0), i64(0)}
		}
	case *types.Interface:
		return IfaceV{"0", "0"}
	case *types.Array:
		return ArrV{A: c.zeroLifted(u.Elem(), 1), N: u.Len(), Elem: u.Elem()}
	}
	bail("zero %s", t)
	return nil
}

func (c *Ctx) zeroLifted(t types.Type, depth int) Val {
	z := c.zero(t)
	lift := func(s Sc) Sc {
		term, srt := s.T, s.S
		for i := 0; i < depth; i++ {
			srt = "(Array " + BV64 + " " + srt + ")"
			term = fmt.Sprintf("((as const %s) %s)", srt, term)
		}
		return Sc{term, srt}
	}
	if av, ok := z.(ArrV); ok {
		// nested arrays: lift inner leaves further
		return ArrV{A: mapLeaves(av.A, lift), N: av.N, Elem: av.Elem}
	}
	return mapLeaves(z, lift)
}

// strLit returns the StrV of a constant string.
func (c *Ctx) strLit(s string) StrV {
	if nm, ok := c.strLits[s]; ok {
		return StrV{nm, i64(0), i64(int64(len(s)))}
	}
	c.n++
	nm := fmt.Sprintf("strlit_%d", c.n)
	var term string
	if len(s) <= 12 {
		term = "EMPTY8"
		for i := 0; i < len(s); i++ {
			if s[i] == 0 {
				continue
			}
			term = fmt.Sprintf("(store %s %s %s)", term, i64(int64(i)), bvlit(8, uint64(s[i])))
		}
	} else {
		// long literals: a lambda array over a balanced decision tree on the index (z3 beta-reduces selects; no store chains)
		vals := make([]string, len(s))
		for i := 0; i < len(s); i++ {
			vals[i] = bvlit(8, uint64(s[i]))
		}
		term = fmt.Sprintf("(lambda ((i %s)) %s)", BV64, balancedTree(vals, 0, len(vals), "#x00"))
	}
	c.decls = append(c.decls, fmt.Sprintf("(define-fun %s () %s %s)", nm, INNER8, term))
	c.strLits[s] = nm
	return StrV{nm, i64(0), i64(int64(len(s)))}
}

func sortedKeys(m map[string]string) []string {
	var ks []string
	for k := range m {
		ks = append(ks, k)
	}
	sort.Strings(ks)
	return ks
}

// balancedTree builds a binary decision tree over index i for vals[lo:hi] (default for out-of-range indices).
func balancedTree(vals []string, lo, hi int, def string) string {
	var rec func(lo, hi int) string
	rec = func(lo, hi int) string {
		if hi-lo == 1 {
			return vals[lo]
		}
		mid := (lo + hi) / 2
		return fmt.Sprintf("(ite (bvult i %s) %s %s)", i64(int64(mid)), rec(lo, mid), rec(mid, hi))
	}
	if len(vals) == 0 {
		return def
	}
	return fmt.Sprintf("(ite (bvult i %s) %s %s)", i64(int64(hi)), rec(lo, hi), def)
}

// unfoldStores lists the array terms below t along its store chain: t itself, the array it stores into, and so on
// (through named definitions), with the index and value of each store.
func (c *Ctx) unfoldStores(t string) (terms, idx, val []string) {
	terms = append(terms, t)
	for len(terms) < 64 {
		d := t
		if x, ok := c.defs[t]; ok {
			d = x
		}
		if !strings.HasPrefix(d, "(store ") {
			break
		}
		kids, _ := sexprChildren(d, 0)
		if len(kids) != 4 {
			break
		}
		idx = append(idx, d[kids[2][0]:kids[2][1]])
		val = append(val, d[kids[3][0]:kids[3][1]])
		t = d[kids[1][0]:kids[1][1]]
		terms = append(terms, t)
	}
	return
}

// mergeArr merges two versions of a heap component at a control-flow join. When both are store chains over a common
// array with the same sequence of indices (the usual case: every branch called a function with the same `modifies`
// locations), or one of them is that common array itself, the merge is done value by value -
//   store(.. store(C, l1, ite(c, a1, b1)) .., ln, ite(c, an, bn))
// which is equal to (ite c A B) for every aliasing of the indices (same store order in both branches; a missing store is
// the identity store of select(C, l)) and spares the solver a case split over whole arrays.
func (c *Ctx) mergeArr(pfx, sort, cond, v, o string) string {
	plain := func() string { return c.name(pfx, sort, fmt.Sprintf("(ite %s %s %s)", cond, v, o)) }
	tv, iv, vv := c.unfoldStores(v)
	to, io, vo := c.unfoldStores(o)
	posO := map[string]int{}
	for j, t := range to {
		if _, ok := posO[t]; !ok {
			posO[t] = j
		}
	}
	jv, jo := -1, -1
	for j, t := range tv {
		if k, ok := posO[t]; ok {
			jv, jo = j, k
			break
		}
	}
	if jv < 0 || (jv == 0 && jo == 0) {
		return plain()
	}
	common := tv[jv]
	// stores above the common array, innermost first
	rev := func(a []string, n int) []string {
		out := make([]string, n)
		for i := 0; i < n; i++ {
			out[i] = a[n-1-i]
		}
		return out
	}
	aI, aV := rev(iv, jv), rev(vv, jv)
	bI, bV := rev(io, jo), rev(vo, jo)
	switch {
	case len(aI) == len(bI):
		for i := range aI {
			if aI[i] != bI[i] {
				return plain()
			}
		}
	case len(bI) == 0:
		bI = aI
		bV = make([]string, len(aI))
		for i, l := range aI {
			bV[i] = fmt.Sprintf("(select %s %s)", common, l)
		}
	case len(aI) == 0:
		aI = bI
		aV = make([]string, len(bI))
		for i, l := range bI {
			aV[i] = fmt.Sprintf("(select %s %s)", common, l)
		}
	default:
		return plain()
	}
	if len(aI) > 12 {
		return plain()
	}
	inner := strings.TrimSuffix(strings.TrimPrefix(sort, "(Array Int "), ")")
	t := common
	for i := range aI {
		val := aV[i]
		if aV[i] != bV[i] {
			val = c.name("mv", inner, fmt.Sprintf("(ite %s %s %s)", cond, aV[i], bV[i]))
		}
		t = c.name(pfx, sort, fmt.Sprintf("(store %s %s %s)", t, aI[i], val))
	}
	c.notes["merge-pointwise"]++
	return t
}

type edgeCond struct {
	cond     string
	at       token.Position
	from, to int
}
