// props.go - property configuration: which functions and obligation kinds decide which property.
package main

import (
	"go/token"
	"go/types"
	"regexp"
	"sort"
	"strings"
	"sync"

	"golang.org/x/tools/go/ssa"
)

type PropCfg struct {
	ID      string
	Level   string // proof | other
	Safety  bool   // language-level safety obligations of the function set count (totality / no panic)
	Variant bool   // termination obligations count
	Roots   []string // regexps: entry points whose reachable module functions form the function set (zero-annotation sweep)
	Tagged  bool   // functions whose contract lists the property (plus the contract callees they rely on)
	Passes  []string // dataflow passes
	DFRoots []string // roots of the call graph inspected by the dataflow passes (default: the decode entry points)
	StopAtTagged bool // the closure over relied-upon contracts stops at contracts that do not list this property: they are assumed here (each is verified by the checks of the properties it lists)
	Scope   []string // if set: only reachable functions matching one of these regexps are claimed; the rest is listed as unverified
	Explain string
	Design  string
}

var safetyKinds = map[string]bool{"index": true, "slice": true, "nil": true, "div": true, "shift": true, "panic": true, "typeassert": true, "make": true, "pool-type": true}

var decodeRoots = []string{
	`^imagemeta\.(Decode|DecodeTiff|DecodeJPEG|DecodePng|DecodeCR3|DecodeCR2|DecodeHeif|PreviewCR3)$`,
	`^exif2\.Parse$`, `^jpeg\.ScanJPEG$`, `^tiff\.ScanTiffHeader$`, `^png\.ScanPngHeader$`,
	`^isobmff\.(NewReader|\(\*Reader\)\.(ReadFTYP|ReadMetadata|Close))$`, `^xmp\.ParseXmp$`,
	`^imagetype\.(Scan|ScanBuf|ReadAt|Buf)$`, `^preview\.RenderPreview$`,
}

// c01Scope: the part of the decode call graph that is under contract so far (grown package by package; everything reachable
// from the entry points but outside this list is reported in the evidence as unverified, never as proved).
var c01Scope = []string{
	`^(exif2|exif2/ifds|exif2/ifds/[a-z/]+|exif2/tag|tiff|png|imagetype|meta|meta/utils|meta/canon)\.`,
	`^imagemeta\.(DecodeTiff|DecodeCR2|DecodeHeif|DecodePng|DecodeJPEG|Decode|DecodeCR3|PreviewCR3)$`,
	`^jpeg\.`,
	`^isobmff\.`,
	`^(xmp|xmp/xmpns|preview)\.`,
}

var hashAndDecodeRoots = append(append([]string{}, decodeRoots...), `^imagehash\.(NewPHash64|NewPHash256|NewPHash64Alt|NewPHash256Alt|NewAHash)$`)

var propCfgs = map[string]*PropCfg{
	"C01": {ID: "C01", Level: "proof", Safety: true, Roots: decodeRoots, Tagged: true, Scope: c01Scope, Design: "DESIGN.md 5 C01"},
	"C02": {ID: "C02", Level: "proof", Variant: true, Roots: decodeRoots, Tagged: true, Scope: c01Scope, Design: "DESIGN.md 5 C02"},
	"C03": {ID: "C03", Level: "proof", Tagged: true, Passes: []string{"reads-frame"}, Design: "DESIGN.md 5 C03"},
	"C04": {ID: "C04", Level: "proof", Tagged: true, DFRoots: hashAndDecodeRoots, Passes: []string{"globals", "pool-discipline", "pool-escape", "pool-fill"}, Design: "DESIGN.md 5 C04"},
	"C05": {ID: "C05", Level: "other", Tagged: true, DFRoots: hashAndDecodeRoots, Passes: []string{"globals", "pool-discipline"}, Design: "DESIGN.md 5 C05",
		Explain: "Deductive verification does not enumerate schedules. What is decided is a discipline that implies data-race freedom for this code base (meta-theorem, stated not proved: lockset + exclusive ownership => DRF): (a) inventory of every package-level variable touched on any path from the decode and hash entry points: each is a sync.Pool, a mutex, read-only after initialisation, assigned only by configuration functions outside the call graph (SetLogger...), or (b) accessed only between Lock/RLock and the matching unlock of a package mutex, writes only under Lock, lock state equal on all paths and free at every return (forward dataflow over the CFG of every function touching it); (c) pool discipline, per path: no path of a function returns more objects to a pool (explicit + deferred Put) than it took from it - a Put on a path without the matching Get would hand the pool an object that somebody else owns - and no pooled object is used after its Put (an instruction reachable behind an explicit Put, or a deferred call registered before the deferred Put, which therefore runs after it). Not covered: races inside dependencies, configuration concurrent with a decode, escape of pooled memory into results (see C04), equality of concurrent and sequential results beyond what C04 would give."},
	"C06": {ID: "C06", Level: "proof", Tagged: true, Design: "DESIGN.md 5 C06"},
	"C07": {ID: "C07", Level: "proof", Tagged: true, Design: "DESIGN.md 5 C07"},
	"C08": {ID: "C08", Level: "proof", Tagged: true, DFRoots: decodeRoots, Passes: []string{"stray-read"}, Design: "DESIGN.md 5 C08"},
	"C09": {ID: "C09", Level: "proof", Safety: true, Tagged: true, Roots: []string{`^imagetype\.(Scan|ScanBuf|ReadAt|Buf)$`}, Design: "DESIGN.md 5 C09"},
	"C10": {ID: "C10", Level: "proof", Tagged: true, StopAtTagged: true, Design: "DESIGN.md 5 C10"},
	"C11": {ID: "C11", Level: "proof", Tagged: true, Design: "DESIGN.md 5 C11"},
	"C12": {ID: "C12", Level: "proof", Safety: true, Variant: true, Tagged: true, Design: "DESIGN.md 5 C12"},
	"C14": {ID: "C14", Level: "other", Tagged: true, DFRoots: decodeRoots, Passes: []string{"alloc"}, Design: "DESIGN.md 5 C14",
		Explain: "Allocation-site inventory over the call graph of the decode/preview entry points (go/ssa): every make, new, append, string/[]byte conversion and buffered-reader construction is one obligation 'the requested size is a constant, a value of at most 16 bits, or the length of a value that is already in memory'. The classification is a syntactic dataflow over the size operand (locals followed through their stores); it is NOT an SMT proof and it does not add the sites up: the global bound 4MiB + 16*len(b) (a ghost allocation counter through every loop) is not decided. Sites inside loops are marked; the number of iterations is covered only where C02 proves a consumption measure."},
	"C15": {ID: "C15", Level: "proof", Tagged: true, Safety: true, Roots: []string{`\.MarshalZerolog(Object|Array)$`, `^exif2\.Tag\.logTag$`, `^isobmff\.\(\*box\)\.log$`}, DFRoots: decodeRoots, Passes: []string{"log-regions", "silence"}, Design: "DESIGN.md 5 C15"},
	"C16": {ID: "C16", Level: "proof", Safety: true, Tagged: true, Roots: []string{
		`^meta\..*\.(UnmarshalText|UnmarshalJSON|UnmarshalBinary|ParseString|MarshalText|MarshalJSON|MarshalBinary|String)$`,
		`^meta/canon\..*\.(UnmarshalText|MarshalText)$`, `^imagetype\.\(\*ImageType\)\.UnmarshalText$`, `^imagetype\.ImageType\.MarshalText$`,
		`^imagehash\..*\.(Decode|Encode|UnmarshalText|MarshalText|UnmarshalJSON|MarshalJSON)$`, `^meta\.(UUIDFromString|UUIDFromBytes|ParseAperture|parse.*)$`,
		`^(meta|meta/canon|imagetype|imagehash)\..*\.(DecodeMsg|EncodeMsg|MarshalMsg|UnmarshalMsg|Msgsize)$`, `^meta\.(NewExposureBias|NewFocalLength|NewAperture|NewDimensions|NewMeteringMode|NewExposureMode|NewExposureProgram|NewFlash)$`,
		`^meta/canon\..*\.(String|UnmarshalText|MarshalText)$`, `^meta\.Dimensions\.(Size|AspectRatio|Orientation)$`}, Design: "DESIGN.md 5 C16"},
	"C17": {ID: "C17", Level: "proof", Safety: true, Tagged: true, Roots: []string{
		`\.(String|Extension|TagName|TagString)$`, `^imagetype\.FromString$`, `^xmp/xmpns\.(Identify.*|.*FromString)$`}, Design: "DESIGN.md 5 C17"},
	"C19": {ID: "C19", Level: "proof", Tagged: true, Design: "DESIGN.md 5 C19"},
}

// callees of fn inside the module (static + CHA for interface invokes on module types + callback fields bound in the module).
func (w *World) moduleCallees(fn *ssa.Function) []*ssa.Function {
	seen := map[*ssa.Function]bool{}
	var out []*ssa.Function
	add := func(f *ssa.Function) {
		if f != nil && inModule(f) && len(f.Blocks) > 0 && !seen[f] && f.Synthetic == "" {
			seen[f] = true
			out = append(out, f)
		}
	}
	for _, b := range fn.Blocks {
		for _, ins := range b.Instrs {
			var com *ssa.CallCommon
			switch x := ins.(type) {
			case *ssa.Call:
				com = &x.Call
			case *ssa.Defer:
				com = &x.Call
			case *ssa.Go:
				com = &x.Call
			case *ssa.MakeClosure:
				if f, ok := x.Fn.(*ssa.Function); ok {
					add(f)
				}
			}
			if com == nil {
				// function values taken (callbacks bound to fields)
				for _, op := range ins.Operands(nil) {
					if f, ok := (*op).(*ssa.Function); ok {
						add(f)
					}
					if mc, ok := (*op).(*ssa.MakeClosure); ok {
						if f, ok := mc.Fn.(*ssa.Function); ok {
							add(f)
							// bound method closures: the wrapped method
							if strings.HasPrefix(f.Synthetic, "bound") {
								w.addBoundTarget(f, add)
							}
						}
					}
				}
				continue
			}
			if com.IsInvoke() {
				// CHA over module types
				for _, t := range w.moduleTypes() {
					ms := w.prog.MethodSets.MethodSet(t)
					if sel := ms.Lookup(com.Method.Pkg(), com.Method.Name()); sel != nil {
						if types.Implements(t, com.Value.Type().Underlying().(*types.Interface)) {
							add(w.prog.MethodValue(sel))
						}
					}
				}
				continue
			}
			if f := com.StaticCallee(); f != nil {
				add(f)
				if f.Synthetic != "" {
					w.addBoundTarget(f, add)
				}
			}
			// a module value handed to a dependency as an interface (zerolog Stringer/Object/Err, fmt): the dependency may call
			// its formatting methods, at log time for instance
			if f := com.StaticCallee(); f == nil || !inModule(f) {
				for _, a := range com.Args {
					mi, ok := a.(*ssa.MakeInterface)
					if !ok {
						continue
					}
					t := mi.X.Type()
					if n, ok := t.(*types.Pointer); ok {
						t = n.Elem()
					}
					nt, ok := t.(*types.Named)
					if !ok || nt.Obj().Pkg() == nil || !strings.HasPrefix(nt.Obj().Pkg().Path(), modulePath) {
						continue
					}
					ms := w.prog.MethodSets.MethodSet(mi.X.Type())
					for _, mn := range []string{"String", "Error", "MarshalZerologObject", "MarshalZerologArray"} {
						if sel := ms.Lookup(nt.Obj().Pkg(), mn); sel != nil {
							mv := w.prog.MethodValue(sel)
							add(mv)
							depCalledMu.Lock()
							depCalled[mv] = true
							depCalledMu.Unlock()
						}
					}
				}
			}
			for _, a := range com.Args {
				if f, ok := a.(*ssa.Function); ok {
					add(f)
				}
				if mc, ok := a.(*ssa.MakeClosure); ok {
					if f, ok := mc.Fn.(*ssa.Function); ok {
						add(f)
						w.addBoundTarget(f, add)
					}
				}
			}
		}
	}
	return out
}

func (w *World) addBoundTarget(f *ssa.Function, add func(*ssa.Function)) {
	for _, b := range f.Blocks {
		for _, ins := range b.Instrs {
			if c, ok := ins.(*ssa.Call); ok {
				if t := c.Call.StaticCallee(); t != nil {
					if inModule(t) && t.Synthetic == "" {
						add(t)
					}
				}
			}
		}
	}
}

// depCalled: formatting methods that a dependency may call (no call site in the module: never "transparent")
var depCalled = map[*ssa.Function]bool{}
var depCalledMu sync.Mutex

var modTypesCache []types.Type

func (w *World) moduleTypes() []types.Type {
	if modTypesCache != nil {
		return modTypesCache
	}
	for _, p := range w.pkgs {
		sc := p.Types.Scope()
		for _, n := range sc.Names() {
			if tn, ok := sc.Lookup(n).(*types.TypeName); ok {
				if _, isI := tn.Type().Underlying().(*types.Interface); isI {
					continue
				}
				modTypesCache = append(modTypesCache, tn.Type(), types.NewPointer(tn.Type()))
			}
		}
	}
	return modTypesCache
}

// reachable computes the module functions reachable from the roots.
func (w *World) reachable(roots []string) []*ssa.Function {
	var res []*regexp.Regexp
	for _, r := range roots {
		res = append(res, regexp.MustCompile(r))
	}
	seen := map[*ssa.Function]bool{}
	var work []*ssa.Function
	for _, fn := range w.fnList {
		nm := fnName(fn)
		for _, re := range res {
			if re.MatchString(nm) {
				if !seen[fn] {
					seen[fn] = true
					work = append(work, fn)
				}
			}
		}
	}
	for len(work) > 0 {
		fn := work[len(work)-1]
		work = work[:len(work)-1]
		for _, cal := range w.moduleCallees(fn) {
			// closures (anonymous functions) are analysed with their parent when supported
			if !seen[cal] {
				seen[cal] = true
				work = append(work, cal)
			}
		}
	}
	var out []*ssa.Function
	for fn := range seen {
		out = append(out, fn)
	}
	sort.Slice(out, func(i, j int) bool { return fnName(out[i]) < fnName(out[j]) })
	return out
}

// recoverOnly: functions reachable only beneath a recover frame (their run-time panics are converted to errors).
func (w *World) recoverFrames() map[*ssa.Function]bool {
	frames := map[*ssa.Function]bool{}
	for _, fn := range w.fnList {
		for _, b := range fn.Blocks {
			for _, ins := range b.Instrs {
				if d, ok := ins.(*ssa.Defer); ok {
					if mc, ok := d.Call.Value.(*ssa.MakeClosure); ok {
						if f, ok := mc.Fn.(*ssa.Function); ok && isRecoverClosure(f) {
							frames[fn] = true
						}
					}
				}
			}
		}
	}
	return frames
}

func hasGenFile(w *World, fn *ssa.Function) bool {
	return strings.Contains(w.fset.Position(fn.Pos()).Filename, "_gen.go")
}

var _ = token.NoPos
