// vcgo: contract-based deductive verifier for the Go subset used by imagemeta.
// vals.go - symbolic values and SMT term helpers.
package main

import (
	"fmt"
	"go/types"
	"strings"
)

// Val is a symbolic Go value.
type Val interface{}

// Sc is a scalar SMT term with its sort.
type Sc struct{ T, S string }

// SliceV is a Go slice: backing array id (Int), offset, len, cap (BV64).
type SliceV struct {
	Arr, Off, Len, Cap string
	Elem               types.Type
}

// StrV is an immutable string: Data is an (Array BV64 BV8) snapshot.
type StrV struct{ Data, Off, Len string }

// StructV is a flattened struct value.
type StructV struct{ F []Val }

// ArrV is an array value; leaves of A are lifted one array level per nesting.
type ArrV struct {
	A    Val
	N    int64
	Elem types.Type
}

// TupleV is a multi-value.
type TupleV struct{ V []Val }

// IfaceV is an interface value: dynamic type tag (0 = nil interface) and payload reference.
type IfaceV struct{ Tag, Ref string }

// PathEl is one step of an interior pointer path.
type PathEl struct {
	Field int    // >=0 field index
	Idx   string // bv64 index term when Field<0
}

// PtrV is a non-opaque pointer (pointer to whole heap objects are Sc Int refs).
type PtrV struct {
	Kind   int // 0 local alloc, 1 heap interior, 2 mem element / whole mem array, 3 global
	Alloc  interface{}
	Ref    string
	Root   types.Type
	Global string // global key
	GArr   int64  // global numeric id
	Path   []PathEl
	ArrId  string
	Idx    string // "WHOLE" for pointer to a whole memory-backed array
	Elem   types.Type
}

const (
	BV64   = "(_ BitVec 64)"
	BV8    = "(_ BitVec 8)"
	INNER8 = "(Array (_ BitVec 64) (_ BitVec 8))"
	WHOLE  = "WHOLE"
)

type unsupported struct{ why string }

func bail(f string, a ...interface{}) { panic(unsupported{fmt.Sprintf(f, a...)}) }

// bvw returns width, signedness of an integer type.
func bvw(t types.Type) (int, bool, bool) {
	b, ok := t.Underlying().(*types.Basic)
	if !ok {
		return 0, false, false
	}
	switch b.Kind() {
	case types.Int8:
		return 8, true, true
	case types.Int16:
		return 16, true, true
	case types.Int32:
		return 32, true, true
	case types.Int64, types.Int:
		return 64, true, true
	case types.Uint8:
		return 8, false, true
	case types.Uint16:
		return 16, false, true
	case types.Uint32:
		return 32, false, true
	case types.Uint64, types.Uint, types.Uintptr:
		return 64, false, true
	case types.UntypedInt, types.UntypedRune:
		return 64, true, true
	}
	return 0, false, false
}

func bvsort(w int) string { return fmt.Sprintf("(_ BitVec %d)", w) }

func isBV(s string) bool { return strings.HasPrefix(s, "(_ BitVec") }

func isString(t types.Type) bool {
	b, ok := t.Underlying().(*types.Basic)
	return ok && b.Info()&types.IsString != 0
}
func isIface(t types.Type) bool {
	_, ok := t.Underlying().(*types.Interface)
	return ok
}
func isFloat(t types.Type) bool {
	b, ok := t.Underlying().(*types.Basic)
	return ok && b.Info()&types.IsFloat != 0
}

func scalarSort(t types.Type) (string, bool) {
	if w, _, ok := bvw(t); ok {
		return bvsort(w), true
	}
	switch u := t.Underlying().(type) {
	case *types.Basic:
		switch u.Kind() {
		case types.Bool, types.UntypedBool:
			return "Bool", true
		case types.Float32:
			return "F32", true
		case types.Float64, types.UntypedFloat:
			return "F64", true
		case types.UnsafePointer:
			return "Int", true
		}
	case *types.Pointer, *types.Map, *types.Chan, *types.Signature:
		return "Int", true // opaque reference
	}
	return "", false
}

func bvlit(w int, v uint64) string {
	if w == 64 {
		return fmt.Sprintf("#x%016x", v)
	}
	if w == 32 {
		return fmt.Sprintf("#x%08x", v&0xffffffff)
	}
	if w == 16 {
		return fmt.Sprintf("#x%04x", v&0xffff)
	}
	if w == 8 {
		return fmt.Sprintf("#x%02x", v&0xff)
	}
	return fmt.Sprintf("(_ bv%d %d)", v&((1<<uint(w))-1), w)
}
func i64(v int64) string { return bvlit(64, uint64(v)) }

func wrapArr(s string, depth int) string {
	for i := 0; i < depth; i++ {
		s = "(Array " + BV64 + " " + s + ")"
	}
	return s
}
func innerSort(s string) string {
	return strings.TrimSuffix(strings.TrimPrefix(s, "(Array "+BV64+" "), ")")
}

func mapLeaves(v Val, f func(Sc) Sc) Val {
	switch x := v.(type) {
	case Sc:
		return f(x)
	case StructV:
		o := StructV{}
		for _, e := range x.F {
			o.F = append(o.F, mapLeaves(e, f))
		}
		return o
	case ArrV:
		return ArrV{A: mapLeaves(x.A, f), N: x.N, Elem: x.Elem}
	case SliceV:
		g := func(p, s string) string { return f(Sc{p, s}).T }
		return SliceV{g(x.Arr, "Int"), g(x.Off, BV64), g(x.Len, BV64), g(x.Cap, BV64), x.Elem}
	case StrV:
		g := func(p, s string) string { return f(Sc{p, s}).T }
		return StrV{g(x.Data, INNER8), g(x.Off, BV64), g(x.Len, BV64)}
	case IfaceV:
		g := func(p, s string) string { return f(Sc{p, s}).T }
		return IfaceV{g(x.Tag, "Int"), g(x.Ref, "Int")}
	case TupleV:
		o := TupleV{}
		for _, e := range x.V {
			o.V = append(o.V, mapLeaves(e, f))
		}
		return o
	case nil:
		return nil
	}
	bail("mapLeaves %T", v)
	return nil
}

// ptrAsRef converts a heap pointer with empty path into an opaque ref scalar.
func ptrAsRef(v Val) (Sc, bool) {
	switch x := v.(type) {
	case Sc:
		return x, true
	case PtrV:
		if x.Kind == 1 && len(x.Path) == 0 {
			return Sc{x.Ref, "Int"}, true
		}
		// pointer to a whole array object: its element memory id is 4096*ref
		if x.Kind == 2 && x.Idx == WHOLE && strings.HasPrefix(x.ArrId, "(* 4096 ") && strings.HasSuffix(x.ArrId, ")") {
			return Sc{x.ArrId[8 : len(x.ArrId)-1], "Int"}, true
		}
	}
	return Sc{}, false
}

func zipLeaves(a, b Val, f func(Sc, Sc) Sc) Val {
	switch x := a.(type) {
	case Sc:
		y, ok := b.(Sc)
		if !ok {
			if r, ok2 := ptrAsRef(b); ok2 {
				return f(x, r)
			}
			bail("merge scalar with %T", b)
		}
		return f(x, y)
	case StructV:
		o := StructV{}
		y := b.(StructV)
		for i, e := range x.F {
			o.F = append(o.F, zipLeaves(e, y.F[i], f))
		}
		return o
	case ArrV:
		return ArrV{A: zipLeaves(x.A, b.(ArrV).A, f), N: x.N, Elem: x.Elem}
	case SliceV:
		y := b.(SliceV)
		g := func(p, q, s string) string { return f(Sc{p, s}, Sc{q, s}).T }
		return SliceV{g(x.Arr, y.Arr, "Int"), g(x.Off, y.Off, BV64), g(x.Len, y.Len, BV64), g(x.Cap, y.Cap, BV64), x.Elem}
	case StrV:
		y := b.(StrV)
		g := func(p, q, s string) string { return f(Sc{p, s}, Sc{q, s}).T }
		return StrV{g(x.Data, y.Data, INNER8), g(x.Off, y.Off, BV64), g(x.Len, y.Len, BV64)}
	case IfaceV:
		y := b.(IfaceV)
		g := func(p, q, s string) string { return f(Sc{p, s}, Sc{q, s}).T }
		return IfaceV{g(x.Tag, y.Tag, "Int"), g(x.Ref, y.Ref, "Int")}
	case TupleV:
		o := TupleV{}
		for i, e := range x.V {
			o.V = append(o.V, zipLeaves(e, b.(TupleV).V[i], f))
		}
		return o
	case PtrV:
		y, ok := b.(PtrV)
		if !ok {
			if r, ok2 := b.(Sc); ok2 {
				if l, ok3 := ptrAsRef(x); ok3 {
					return f(l, r)
				}
			}
			bail("merge pointer with %T", b)
		}
		if x.Kind == y.Kind && x.Alloc == y.Alloc && x.Global == y.Global && fmt.Sprint(x.Path) == fmt.Sprint(y.Path) {
			if x.Kind == 1 {
				if x.Ref == y.Ref {
					return x
				}
				if len(x.Path) == 0 {
					return f(Sc{x.Ref, "Int"}, Sc{y.Ref, "Int"})
				}
				n := x
				n.Ref = f(Sc{x.Ref, "Int"}, Sc{y.Ref, "Int"}).T
				return n
			}
			if x.Kind == 2 {
				n := x
				n.ArrId = f(Sc{x.ArrId, "Int"}, Sc{y.ArrId, "Int"}).T
				if x.Idx == WHOLE || y.Idx == WHOLE {
					if x.Idx != y.Idx {
						bail("merge whole/elem pointers")
					}
				} else {
					n.Idx = f(Sc{x.Idx, BV64}, Sc{y.Idx, BV64}).T
				}
				return n
			}
			if x.Ref == y.Ref && x.ArrId == y.ArrId && x.Idx == y.Idx {
				return x
			}
		}
		bail("merge of distinct pointers")
	case nil:
		return nil
	}
	bail("zipLeaves %T", a)
	return nil
}

// sel selects index idx from every leaf of a lifted array value.
func sel(a Val, idx string) Val {
	return mapLeaves(a, func(s Sc) Sc {
		if strings.HasPrefix(s.T, "@fn:") {
			return Sc{fmt.Sprintf("(%s %s)", s.T[4:], idx), innerSort(s.S)}
		}
		return Sc{fmt.Sprintf("(select %s %s)", s.T, idx), innerSort(s.S)}
	})
}

// leafSorts flattens the scalar leaves (term, sort) of a value.
func leaves(v Val) []Sc {
	var out []Sc
	mapLeaves(v, func(s Sc) Sc { out = append(out, s); return s })
	return out
}

// valEq builds structural equality of two values of the same shape.
func valEq(a, b Val) string {
	var parts []string
	zipLeaves(a, b, func(p, q Sc) Sc {
		if p.T != q.T {
			parts = append(parts, fmt.Sprintf("(= %s %s)", p.T, q.T))
		}
		return p
	})
	if len(parts) == 0 {
		return "true"
	}
	if len(parts) == 1 {
		return parts[0]
	}
	return "(and " + strings.Join(parts, " ") + ")"
}

func and(xs ...string) string {
	var o []string
	for _, x := range xs {
		if x == "true" || x == "" {
			continue
		}
		if x == "false" {
			return "false"
		}
		o = append(o, x)
	}
	if len(o) == 0 {
		return "true"
	}
	if len(o) == 1 {
		return o[0]
	}
	return "(and " + strings.Join(o, " ") + ")"
}
func or(xs ...string) string {
	var o []string
	for _, x := range xs {
		if x == "false" || x == "" {
			continue
		}
		if x == "true" {
			return "true"
		}
		o = append(o, x)
	}
	if len(o) == 0 {
		return "false"
	}
	if len(o) == 1 {
		return o[0]
	}
	return "(or " + strings.Join(o, " ") + ")"
}
func not(x string) string {
	if x == "true" {
		return "false"
	}
	if x == "false" {
		return "true"
	}
	if strings.HasPrefix(x, "(not ") && balanced(x[5:len(x)-1]) {
		return x[5 : len(x)-1]
	}
	return "(not " + x + ")"
}
func imp(a, b string) string {
	if a == "true" {
		return b
	}
	if b == "true" || a == "false" {
		return "true"
	}
	return "(=> " + a + " " + b + ")"
}
func balanced(s string) bool {
	d := 0
	for i := 0; i < len(s); i++ {
		switch s[i] {
		case '(':
			d++
		case ')':
			d--
			if d < 0 {
				return false
			}
		case ' ':
			if d == 0 {
				return false
			}
		}
	}
	return d == 0
}
