// contract.go - contract files (//@ comments in /repo/<pkg>/zz_verif_contracts.go, and /verif/specs/*.spec).
package main

import (
	"bufio"
	"fmt"
	"go/ast"
	"go/parser"
	"os"
	"path/filepath"
	"regexp"
	"sort"
	"strconv"
	"strings"
)

type Clause struct {
	Text  string
	Expr  ast.Expr
	Props []string
	Loc   string
	Tier  string
	Only  bool // [Cxx ONLY]: used as a hypothesis only in the checks of the listed properties (keeps other checks' queries small)
}

type LoopSpec struct {
	Invs   []Clause
	Decr   []Clause
	Unroll bool
	CutExits bool // `loop N cutexits`: break/return-free exits out of the loop body are cut like back edges (invariant checked, then assumed on a havocked state)
}

type Contract struct {
	Name      string
	Props     []string
	Requires  []Clause
	Ensures   []Clause
	Modifies  []Clause
	HasMod    bool
	Pure      bool
	Uses      []Clause // lemma instances assumed in the exit state (before the postconditions are checked)
	Loops     map[int]*LoopSpec
	Decreases []Clause
	Params    []string // explicit names (dependencies)
	Results   []string
	Assumed   bool // dependency / interface contract: not verified here
	Trusted   string // reason if an in-module contract is assumed instead of verified
	Loc       string
	NoInline  bool
	Entry     bool
	Panics    bool // function may panic by design (documented); excluded
	Views     []string
	Ghosts    []GhostRes // ghost results: named values of locals at return, existentially quantified for callers
	BindEnsures map[int]bool // callback contracts: indices of Ensures that are also obligations of a method bound to the slot
	Reads     []string // reads frame: the only locations (field paths rooted at parameters) the function may read
	BindAssume []Clause  // callback contracts: extra hypotheses under which a bound method is checked to meet the postconditions
	used      bool
}

type GhostRes struct {
	Name string
	Type string
	Expr Clause
}

type SpecFunc struct {
	Name   string
	Params []string
	Body   ast.Expr
	Text   string
	Loc    string
}

type Lemma struct {
	Name  string
	Props []string
	Expr  ast.Expr
	Text  string
	Loc   string
	Vars  string
	Uses  []ast.Expr // instances `lemmaName(e1, e2, ...)` of other lemmas, assumed (those lemmas are proved in the same run)
}

var propRe = regexp.MustCompile(`^\[((?:(?:C\d+|ONLY)[ ,]*)+)\]\s*`)

// rewriteSpec turns the contract surface syntax (==>, <==>, forall) into parseable Go.
func rewriteSpec(s string) string {
	s = strings.TrimSpace(s)
	for _, q := range []string{"forall", "exists"} {
		if strings.HasPrefix(s, q+" ") {
			i := strings.Index(s, "::")
			if i < 0 {
				return s
			}
			vars := strings.TrimSpace(s[len(q):i])
			body := rewriteSpec(s[i+2:])
			return fmt.Sprintf("__%s(func(%s) bool { return %s })", q, vars, body)
		}
	}
	if i := topLevel(s, "<==>"); i >= 0 {
		return "__iff(" + rewriteSpec(s[:i]) + ", " + rewriteSpec(s[i+4:]) + ")"
	}
	if i := topLevel(s, "==>"); i >= 0 {
		return "__imp(" + rewriteSpec(s[:i]) + ", " + rewriteSpec(s[i+3:]) + ")"
	}
	// ternary-free language; recurse into bracket groups
	var out strings.Builder
	i := 0
	for i < len(s) {
		ch := s[i]
		switch ch {
		case '"', '`', '\'':
			j := skipLit(s, i)
			out.WriteString(s[i:j])
			i = j
		case '(', '[':
			j := matchClose(s, i)
			if j < 0 {
				out.WriteString(s[i:])
				return out.String()
			}
			inner := s[i+1 : j]
			parts := splitTop(inner, ',')
			for k := range parts {
				parts[k] = rewriteSpec(parts[k])
			}
			out.WriteByte(ch)
			out.WriteString(strings.Join(parts, ", "))
			out.WriteByte(s[j])
			i = j + 1
		default:
			out.WriteByte(ch)
			i++
		}
	}
	return out.String()
}

func skipLit(s string, i int) int {
	q := s[i]
	j := i + 1
	for j < len(s) {
		if s[j] == '\\' && q != '`' {
			j += 2
			continue
		}
		if s[j] == q {
			return j + 1
		}
		j++
	}
	return len(s)
}

func matchClose(s string, i int) int {
	d := 0
	for j := i; j < len(s); j++ {
		switch s[j] {
		case '"', '`', '\'':
			j = skipLit(s, j) - 1
		case '(', '[', '{':
			d++
		case ')', ']', '}':
			d--
			if d == 0 {
				return j
			}
		}
	}
	return -1
}

func topLevel(s, op string) int {
	d := 0
	for j := 0; j+len(op) <= len(s); j++ {
		switch s[j] {
		case '"', '`', '\'':
			j = skipLit(s, j) - 1
			continue
		case '(', '[', '{':
			d++
		case ')', ']', '}':
			d--
		}
		if d == 0 && strings.HasPrefix(s[j:], op) {
			if op == "==>" && j > 0 && s[j-1] == '<' {
				continue
			}
			return j
		}
	}
	return -1
}

func splitTop(s string, sep byte) []string {
	var parts []string
	d := 0
	last := 0
	for j := 0; j < len(s); j++ {
		switch s[j] {
		case '"', '`', '\'':
			j = skipLit(s, j) - 1
			continue
		case '(', '[', '{':
			d++
		case ')', ']', '}':
			d--
		}
		if d == 0 && s[j] == sep {
			parts = append(parts, s[last:j])
			last = j + 1
		}
	}
	parts = append(parts, s[last:])
	return parts
}

func parseSpecExpr(text string) (ast.Expr, error) {
	return parser.ParseExpr(rewriteSpec(text))
}

func mkClause(text, loc string) (Clause, error) {
	cl := Clause{Loc: loc}
	text = strings.TrimSpace(text)
	if m := propRe.FindStringSubmatch(text); m != nil {
		for _, p := range strings.FieldsFunc(m[1], func(r rune) bool { return r == ' ' || r == ',' }) {
			if p == "ONLY" {
				cl.Only = true
				continue
			}
			cl.Props = append(cl.Props, p)
		}
		text = text[len(m[0]):]
	}
	if strings.HasPrefix(text, "[thorough]") {
		cl.Tier = "thorough"
		text = strings.TrimSpace(text[len("[thorough]"):])
	}
	cl.Text = text
	e, err := parseSpecExpr(text)
	if err != nil {
		return cl, fmt.Errorf("%s: cannot parse %q: %v", loc, text, err)
	}
	cl.Expr = e
	return cl, nil
}

var clauseKw = map[string]bool{"props": true, "requires": true, "ensures": true, "modifies": true, "pure": true, "loop": true, "decreases": true,
	"names": true, "assumed": true, "trusted": true, "noinline": true, "entry": true, "func": true, "dep": true, "spec": true, "lemma": true,
	"ghost": true, "uses": true, "bindassume": true, "bindensures": true, "reads": true, "streamalias": true, "interface": true, "purepkg": true, "panics": true, "view": true, "pool": true}

// parseContractLines parses logical contract lines. pkgRel is the package the file belongs to ("" for spec files).
func (w *World) parseContractLines(lines []string, locs []string, pkgRel string, assumed bool) error {
	var cur *Contract
	// join continuation lines
	var jl, jloc []string
	for i, l := range lines {
		t := strings.TrimSpace(l)
		if t == "" {
			continue
		}
		first := strings.Fields(t)[0]
		if !clauseKw[first] && len(jl) > 0 {
			jl[len(jl)-1] += " " + t
			continue
		}
		jl = append(jl, t)
		jloc = append(jloc, locs[i])
	}
	for i, t := range jl {
		loc := jloc[i]
		f := strings.Fields(t)
		kw := f[0]
		rest := strings.TrimSpace(t[len(kw):])
		switch kw {
		case "func", "dep":
			nm := rest
			if strings.HasPrefix(nm, "callback ") && strings.Contains(nm, "=") {
				// dep callback <param or field> = <other callback>: same contract (the value is passed on unchanged)
				p := strings.SplitN(strings.TrimPrefix(nm, "callback "), "=", 2)
				w.callbackAlias["callback "+strings.TrimSpace(p[0])] = "callback " + strings.TrimSpace(p[1])
				cur = nil
				continue
			}
			if pkgRel != "" && !strings.HasPrefix(nm, pkgRel+".") && !strings.HasPrefix(nm, "callback ") {
				nm = pkgRel + "." + nm
			}
			if _, dup := w.contracts[nm]; dup {
				return fmt.Errorf("%s: duplicate contract for %s", loc, nm)
			}
			cur = &Contract{Name: nm, Loops: map[int]*LoopSpec{}, Loc: loc, Assumed: assumed || kw == "dep"}
			w.contracts[nm] = cur
		case "interface":
			// interface <iface method> = <contract name>
			p := strings.SplitN(rest, "=", 2)
			if len(p) != 2 {
				return fmt.Errorf("%s: bad interface alias", loc)
			}
			w.ifaceAlias[strings.TrimSpace(p[0])] = strings.TrimSpace(p[1])
			cur = nil
		case "pool":
			// pool <global> <element type> [inv <expr over `it`>]: the invariant holds of every object in the pool - assumed of what
			// Get returns, an obligation at every Put; that New establishes it is an ordinary postcondition of the New closure
			if len(f) < 3 {
				return fmt.Errorf("%s: bad pool declaration", loc)
			}
			g := f[1]
			if pkgRel != "" && !strings.Contains(g, ".") {
				g = pkgRel + "." + g
			}
			w.pools[g] = f[2]
			w.poolPkg[g] = pkgRel
			if len(f) > 3 {
				if f[3] != "inv" || len(f) < 5 {
					return fmt.Errorf("%s: bad pool declaration (pool <global> <type> [inv <expr>])", loc)
				}
				i := strings.Index(rest, " inv ")
				cl, err := mkClause(strings.TrimSpace(rest[i+5:]), loc)
				if err != nil {
					return err
				}
				if w.poolInv == nil {
					w.poolInv = map[string]Clause{}
				}
				w.poolInv[g] = cl
			}
			cur = nil
		case "streamalias":
			// streamalias *pkg.T field.field: the ghost stream of a T is that of the reader object reached through the path
			if len(f) != 3 {
				return fmt.Errorf("%s: bad streamalias declaration", loc)
			}
			w.streamAlias = append(w.streamAlias, streamAliasDecl{typ: f[1], path: strings.Split(f[2], ".")})
			cur = nil
		case "purepkg":
			for _, p := range strings.Fields(rest) {
				w.purePkgs[p] = true
			}
			cur = nil
		case "spec":
			// spec name(a, b) = expr
			eq := topLevel(rest, " = ")
			if eq < 0 {
				return fmt.Errorf("%s: bad spec func", loc)
			}
			head := strings.TrimSpace(rest[:eq])
			op := strings.Index(head, "(")
			if op < 0 || !strings.HasSuffix(head, ")") {
				return fmt.Errorf("%s: bad spec func head %q", loc, head)
			}
			sf := &SpecFunc{Name: strings.TrimSpace(head[:op]), Text: strings.TrimSpace(rest[eq+3:]), Loc: loc}
			for _, p := range strings.Split(head[op+1:len(head)-1], ",") {
				if p = strings.TrimSpace(p); p != "" {
					sf.Params = append(sf.Params, strings.Fields(p)[0])
				}
			}
			e, err := parseSpecExpr(sf.Text)
			if err != nil {
				return fmt.Errorf("%s: spec %s: %v", loc, sf.Name, err)
			}
			sf.Body = e
			if _, dup := w.specFuncs[sf.Name]; dup {
				return fmt.Errorf("%s: duplicate spec func %s", loc, sf.Name)
			}
			w.specFuncs[sf.Name] = sf
			cur = nil
		case "lemma":
			// lemma name [props]: expr
			ci := strings.Index(rest, ":")
			if ci < 0 {
				return fmt.Errorf("%s: bad lemma", loc)
			}
			headS := strings.TrimSpace(rest[:ci])
			vars := ""
			if op := strings.Index(headS, "("); op >= 0 {
				cp := matchClose(headS, op)
				if cp < 0 {
					return fmt.Errorf("%s: bad lemma head", loc)
				}
				vars = headS[op+1 : cp]
				headS = headS[:op] + " " + headS[cp+1:]
			}
			// optional: uses l1(args), l2(args)
			var uses []ast.Expr
			if ui := strings.Index(headS, " uses "); ui >= 0 {
				for _, u := range splitTop(headS[ui+6:], ',') {
					ue, err := parseSpecExpr(strings.TrimSpace(u))
					if err != nil {
						return fmt.Errorf("%s: lemma uses %q: %v", loc, u, err)
					}
					uses = append(uses, ue)
				}
				headS = headS[:ui]
			}
			head := strings.Fields(headS)
			cl, err := mkClause(rest[ci+1:], loc)
			if err != nil {
				return err
			}
			lm := &Lemma{Name: head[0], Expr: cl.Expr, Text: cl.Text, Loc: loc, Props: cl.Props, Vars: vars, Uses: uses}
			for _, h := range head[1:] {
				for _, p := range strings.FieldsFunc(strings.Trim(h, "[]"), func(r rune) bool { return r == ',' }) {
					lm.Props = append(lm.Props, p)
				}
			}
			w.lemmas = append(w.lemmas, lm)
			cur = nil
		case "ghost":
			// inside a func block: ghost <name> <type> = <expr over the function's locals at return>
			if cur != nil && len(f) >= 5 && f[1] != "field" && f[3] == "=" {
				ex := strings.TrimSpace(rest[strings.Index(rest, "=")+1:])
				cl, err := mkClause(ex, loc)
				if err != nil {
					return err
				}
				cur.Ghosts = append(cur.Ghosts, GhostRes{Name: f[1], Type: f[2], Expr: cl})
				continue
			}
			// ghost field T.name type
			if len(f) >= 4 && f[1] == "field" {
				p := strings.SplitN(f[2], ".", 2)
				tk := p[0]
				if pkgRel != "" {
					tk = filepath.Base(pkgRel) + "." + p[0]
				}
				if w.ghostFields[tk] == nil {
					w.ghostFields[tk] = map[string]string{}
				}
				w.ghostFields[tk][p[1]] = f[3]
			}
			cur = nil
		default:
			if cur == nil {
				return fmt.Errorf("%s: clause %q outside a func block", loc, kw)
			}
			switch kw {
			case "props":
				cur.Props = append(cur.Props, strings.FieldsFunc(rest, func(r rune) bool { return r == ' ' || r == ',' })...)
			case "requires", "ensures", "bindassume", "bindensures":
				cl, err := mkClause(rest, loc)
				if err != nil {
					return err
				}
				if kw == "requires" {
					cur.Requires = append(cur.Requires, cl)
				} else if kw == "bindassume" {
					cur.BindAssume = append(cur.BindAssume, cl)
				} else if kw == "bindensures" {
					if cur.BindEnsures == nil {
						cur.BindEnsures = map[int]bool{}
					}
					cur.BindEnsures[len(cur.Ensures)] = true
					cur.Ensures = append(cur.Ensures, cl)
				} else {
					cur.Ensures = append(cur.Ensures, cl)
				}
			case "reads":
				for _, m := range splitTop(rest, ',') {
					if m = strings.TrimSpace(m); m != "" {
						cur.Reads = append(cur.Reads, m)
					}
				}
			case "modifies":
				cur.HasMod = true
				if strings.TrimSpace(rest) == "nothing" {
					break
				}
				for _, m := range splitTop(rest, ',') {
					m = strings.TrimSpace(m)
					if m == "" {
						continue
					}
					cl := Clause{Text: m, Loc: loc}
					if m != "*" {
						e, err := parser.ParseExpr(m)
						if err != nil {
							return fmt.Errorf("%s: modifies %q: %v", loc, m, err)
						}
						cl.Expr = e
					}
					cur.Modifies = append(cur.Modifies, cl)
				}
			case "pure":
				cur.Pure = true
				cur.HasMod = true
			case "uses":
				for _, u := range splitTop(rest, ';') {
					cl, err := mkClause(strings.TrimSpace(u), loc)
					if err != nil {
						return err
					}
					cur.Uses = append(cur.Uses, cl)
				}
			case "decreases":
				for _, m := range splitTop(rest, ',') {
					cl, err := mkClause(m, loc)
					if err != nil {
						return err
					}
					cur.Decreases = append(cur.Decreases, cl)
				}
			case "loop":
				if len(f) < 3 {
					return fmt.Errorf("%s: bad loop clause", loc)
				}
				k, err := strconv.Atoi(f[1])
				if err != nil {
					return fmt.Errorf("%s: bad loop ordinal", loc)
				}
				ls := cur.Loops[k]
				if ls == nil {
					ls = &LoopSpec{}
					cur.Loops[k] = ls
				}
				body := strings.TrimSpace(strings.TrimSpace(rest[len(f[1]):])[len(f[2]):])
				switch f[2] {
				case "invariant":
					cl, err := mkClause(body, loc)
					if err != nil {
						return err
					}
					ls.Invs = append(ls.Invs, cl)
				case "decreases":
					for _, m := range splitTop(body, ',') {
						cl, err := mkClause(m, loc)
						if err != nil {
							return err
						}
						ls.Decr = append(ls.Decr, cl)
					}
				case "unroll":
					ls.Unroll = true
				case "cutexits":
					ls.CutExits = true
				default:
					return fmt.Errorf("%s: unknown loop clause %q", loc, f[2])
				}
			case "names":
				// names a b c -> r0 r1
				p := strings.SplitN(rest, "->", 2)
				cur.Params = strings.Fields(p[0])
				if len(p) == 2 {
					cur.Results = strings.Fields(p[1])
				}
			case "assumed":
				cur.Assumed = true
			case "trusted":
				cur.Trusted = rest
				cur.Assumed = true
			case "noinline":
				cur.NoInline = true
			case "entry":
				cur.Entry = true
			case "panics":
				cur.Panics = true
			case "view":
				cur.Views = append(cur.Views, strings.Fields(rest)...)
			}
		}
	}
	return nil
}

// loadContracts reads //@ lines from every zz_verif_contracts.go in the repo and all /verif/specs/*.spec files.
func (w *World) loadContracts(specDir string) error {
	var files []string
	filepath.Walk(w.repo, func(p string, info os.FileInfo, err error) error {
		if err == nil && !info.IsDir() && info.Name() == "zz_verif_contracts.go" {
			files = append(files, p)
		}
		return nil
	})
	sort.Strings(files)
	for _, fpath := range files {
		fh, err := os.Open(fpath)
		if err != nil {
			return err
		}
		rel, _ := filepath.Rel(w.repo, filepath.Dir(fpath))
		if rel == "." {
			rel = "imagemeta"
		}
		var lines, locs []string
		sc := bufio.NewScanner(fh)
		sc.Buffer(make([]byte, 1<<20), 1<<20)
		n := 0
		for sc.Scan() {
			n++
			l := strings.TrimSpace(sc.Text())
			if strings.HasPrefix(l, "//@") {
				lines = append(lines, l[3:])
				locs = append(locs, fmt.Sprintf("%s:%d", fpath, n))
			}
		}
		fh.Close()
		w.contractFiles = append(w.contractFiles, fpath)
		if err := w.parseContractLines(lines, locs, rel, false); err != nil {
			return err
		}
	}
	specs, _ := filepath.Glob(filepath.Join(specDir, "*.spec"))
	sort.Strings(specs)
	for _, fpath := range specs {
		data, err := os.ReadFile(fpath)
		if err != nil {
			return err
		}
		var lines, locs []string
		for i, l := range strings.Split(string(data), "\n") {
			if t := strings.TrimSpace(l); strings.HasPrefix(t, "#") || strings.HasPrefix(t, "//") {
				continue
			}
			lines = append(lines, l)
			locs = append(locs, fmt.Sprintf("%s:%d", fpath, i+1))
		}
		w.contractFiles = append(w.contractFiles, fpath)
		if err := w.parseContractLines(lines, locs, "", true); err != nil {
			return err
		}
	}
	// every non-dependency contract must bind to an existing function
	for nm, ct := range w.contracts {
		if ct.Assumed && w.fns[nm] == nil {
			continue
		}
		if w.fns[nm] == nil {
			// the function under contract does not exist (any more): not a tool error but a failed structural obligation of every
			// property the contract lists (reported by `check`; on the unchanged tree this cannot happen without being noticed)
			if w.unbound == nil {
				w.unbound = map[string]*Contract{}
			}
			w.unbound[nm] = ct
			delete(w.contracts, nm)
		}
	}
	return nil
}
