// instr.go - semantics of SSA instructions (bit-vector mode, GOARCH=amd64: int is 64 bit).
package main

import (
	"sync"
	"fmt"
	"go/ast"
	"go/constant"
	"go/token"
	"go/types"
	"math/big"
	"strconv"
	"strings"

	"golang.org/x/tools/go/ssa"
)

func (c *Ctx) toI64(v Val, t types.Type) string {
	w, signed, ok := bvw(t)
	if !ok {
		bail("index type %s", t)
	}
	x := v.(Sc).T
	if w == 64 {
		return x
	}
	if signed {
		return fmt.Sprintf("((_ sign_extend %d) %s)", 64-w, x)
	}
	return fmt.Sprintf("((_ zero_extend %d) %s)", 64-w, x)
}

func (c *Ctx) constVal(k *ssa.Const) Val {
	t := k.Type()
	if k.Value == nil {
		return c.zero(t)
	}
	return c.constOf(k.Value, t)
}

func (c *Ctx) constOf(cv constant.Value, t types.Type) Val {
	if w, _, ok := bvw(t); ok {
		iv := constant.ToInt(cv)
		if iv.Kind() != constant.Int {
			bail("non-integer constant for integer type")
		}
		if v, exact := constant.Int64Val(iv); exact {
			return Sc{bvlit(w, uint64(v)), bvsort(w)}
		}
		v, _ := constant.Uint64Val(iv)
		return Sc{bvlit(w, v), bvsort(w)}
	}
	switch u := t.Underlying().(type) {
	case *types.Basic:
		if u.Info()&types.IsBoolean != 0 {
			return Sc{fmt.Sprint(constant.BoolVal(cv)), "Bool"}
		}
		if u.Info()&types.IsString != 0 {
			return c.strLit(constant.StringVal(cv))
		}
		if u.Info()&types.IsFloat != 0 {
			s, _ := scalarSort(t)
			return Sc{fpLit(cv, s), s}
		}
	}
	bail("const of type %s", t)
	return nil
}

func fpLit(cv constant.Value, sort string) string {
	eb, sb := 11, 53
	if sort == "F32" {
		eb, sb = 8, 24
	}
	f := constant.ToFloat(cv)
	r, ok := constant.Val(f).(*big.Rat)
	var num, den string
	if ok {
		num, den = r.Num().String(), r.Denom().String()
	} else if bf, ok := constant.Val(f).(*big.Float); ok {
		rr, _ := bf.Rat(nil)
		if rr == nil {
			bail("float constant")
		}
		num, den = rr.Num().String(), rr.Denom().String()
	} else {
		bail("float constant kind")
	}
	neg := strings.HasPrefix(num, "-")
	num = strings.TrimPrefix(num, "-")
	q := fmt.Sprintf("(/ %s.0 %s.0)", num, den)
	if neg {
		q = "(- " + q + ")"
	}
	return fmt.Sprintf("((_ to_fp %d %d) RNE %s)", eb, sb, q)
}

func (c *Ctx) val(fr *Frame, v ssa.Value) Val {
	if x, ok := fr.env[v]; ok {
		return x
	}
	switch x := v.(type) {
	case *ssa.Const:
		return c.constVal(x)
	case *ssa.Global:
		return c.globalPtr(x)
	case *ssa.Function:
		return Sc{strconv.Itoa(5000 + c.w.typeTag(types.NewPointer(x.Signature))*0 + c.fnId(x)), "Int"}
	case *ssa.Builtin:
		return Sc{"78", "Int"}
	}
	bail("val: %T %s", v, v)
	return nil
}

var fnIds = map[string]int{}

func (c *Ctx) fnId(f *ssa.Function) int {
	k := f.String()
	if n, ok := fnIds[k]; ok {
		return n
	}
	n := len(fnIds) + 1
	fnIds[k] = n
	return n
}

var gnumMu sync.Mutex

func (c *Ctx) globalPtr(g *ssa.Global) Val {
	et := g.Type().(*types.Pointer).Elem()
	gi := c.w.globals[g.String()]
	num := 0
	if gi != nil {
		num = gi.num
	} else {
		// global of a dependency package
		gnumMu.Lock()
		n, ok := c.w.gnum[g.String()]
		if !ok {
			n = 50000 + len(c.w.gnum)
			c.w.gnum[g.String()] = n
		}
		gnumMu.Unlock()
		num = n
	}
	if at, ok := et.Underlying().(*types.Array); ok {
		p := PtrV{Kind: 2, ArrId: arrIdOf(strconv.Itoa(num), "G:"+g.String()), Idx: WHOLE, Elem: et, Root: at.Elem(), Global: g.String()}
		return p
	}
	return PtrV{Kind: 1, Ref: strconv.Itoa(num), Root: et, Global: g.String(), Elem: et}
}

// constGlobal returns the value of an effectively-constant global (scalars, strings, error sentinels).
func (c *Ctx) constGlobal(st *State, p PtrV) (Val, bool) {
	gi := c.w.globals[p.Global]
	if gi == nil || gi.stored {
		return nil, false
	}
	if len(p.Path) != 0 {
		return nil, false
	}
	et := p.Root
	if isIface(et) && gi.distinctErr {
		c.depsUsed["sentinel errors created by errors.New/fmt.Errorf at package init are distinct non-nil values"] = true
		return IfaceV{Tag: strconv.Itoa(900000 + gi.num), Ref: strconv.Itoa(900000 + gi.num)}, true
	}
	if gi.init == nil {
		return nil, false
	}
	if cv, _, ok := constEval(gi.info, gi.init); ok {
		if _, isS := scalarSort(et); isS || isString(et) {
			return c.constOf(cv, et), true
		}
	}
	if _, ok := et.Underlying().(*types.Map); ok {
		return Sc{strconv.Itoa(gi.num), "Int"}, true
	}
	if sl, ok := et.Underlying().(*types.Slice); ok {
		// constant slice literal: contents in a dedicated array, protected from havoc as a view
		vals, ok := c.constElems(gi, sl.Elem())
		if !ok {
			return nil, false
		}
		id := arrIdOf(strconv.Itoa(gi.num), "G:"+p.Global+"#backing")
		lv, ok := c.constSliceBacking(id, vals, sl.Elem())
		if !ok {
			return nil, false
		}
		_ = lv // contents are served from the constant table at load time (see load, Kind 2)
		n := i64(int64(len(vals)))
		return SliceV{id, i64(0), n, n, sl.Elem()}, true
	}
	return nil, false
}

// constElems evaluates a composite literal of constants ([N]T{..}, []T{..}, []byte("..")).
func (c *Ctx) constElems(gi *globalInfo, elem types.Type) ([]constant.Value, bool) {
	e := gi.init
	if ce, ok := e.(*ast.CallExpr); ok && len(ce.Args) == 1 {
		// []byte("...")
		if cv, _, ok := constEval(gi.info, ce.Args[0]); ok && cv.Kind() == constant.String {
			s := constant.StringVal(cv)
			var out []constant.Value
			for i := 0; i < len(s); i++ {
				out = append(out, constant.MakeInt64(int64(s[i])))
			}
			return out, true
		}
		return nil, false
	}
	cl, ok := e.(*ast.CompositeLit)
	if !ok {
		return nil, false
	}
	var out []constant.Value
	idx := 0
	for _, el := range cl.Elts {
		ve := el
		if kv, ok := el.(*ast.KeyValueExpr); ok {
			kc, _, ok := constEval(gi.info, kv.Key)
			if !ok {
				return nil, false
			}
			k, _ := constant.Int64Val(kc)
			idx = int(k)
			ve = kv.Value
		}
		cv, _, ok := constEval(gi.info, ve)
		if !ok {
			return nil, false
		}
		for len(out) <= idx {
			out = append(out, nil)
		}
		out[idx] = cv
		idx++
	}
	return out, true
}

func (c *Ctx) constInnerArray(vals []constant.Value, elem types.Type, n int64) (Val, bool) {
	// returns lifted value (leaves: Array BV64 leaf)
	if srt, ok := scalarSort(elem); ok && (isBV(srt) || srt == "Bool") {
		// constant table as an ite-chain function over the index (pure bit-vector reasoning, no array theory)
		z := c.zero(elem).(Sc)
		ts := make([]string, len(vals))
		for i, v := range vals {
			e := z
			if v != nil {
				e = c.constOf(v, elem).(Sc)
			}
			ts[i] = e.T
		}
		term := balancedTree(ts, 0, len(ts), z.T)
		c.n++
		nm := fmt.Sprintf("ctabf_%d", c.n)
		c.decls = append(c.decls, fmt.Sprintf("(define-fun %s ((i %s)) %s %s)", nm, BV64, srt, term))
		// the same table as a real array term (store chain), used when the whole array value is copied somewhere
		// (queryText substitutes it for any "@fn:" leaf that escapes an index operation)
		if len(ts) <= 1024 {
			at := fmt.Sprintf("((as const (Array %s %s)) %s)", BV64, srt, z.T)
			for i, t := range ts {
				if t != z.T {
					at = fmt.Sprintf("(store %s %s %s)", at, i64(int64(i)), t)
				}
			}
			c.decls = append(c.decls, fmt.Sprintf("(define-fun %s () (Array %s %s) %s)", strings.Replace(nm, "ctabf_", "ctaba_", 1), BV64, srt, at))
		}
		return Sc{"@fn:" + nm, "(Array " + BV64 + " " + srt + ")"}, true
	}
	if isString(elem) {
		d := fmt.Sprintf("((as const (Array %s %s)) EMPTY8)", BV64, INNER8)
		l := fmt.Sprintf("((as const (Array %s %s)) %s)", BV64, BV64, i64(0))
		for i, v := range vals {
			if v == nil {
				continue
			}
			s := c.strLit(constant.StringVal(v))
			d = fmt.Sprintf("(store %s %s %s)", d, i64(int64(i)), s.Data)
			l = fmt.Sprintf("(store %s %s %s)", l, i64(int64(i)), s.Len)
		}
		c.n++
		nd, nl := fmt.Sprintf("ctabd_%d", c.n), fmt.Sprintf("ctabl_%d", c.n)
		c.decls = append(c.decls, fmt.Sprintf("(define-fun %s () (Array %s %s) %s)", nd, BV64, INNER8, d))
		c.decls = append(c.decls, fmt.Sprintf("(define-fun %s () (Array %s %s) %s)", nl, BV64, BV64, l))
		return StrV{nd, fmt.Sprintf("((as const (Array %s %s)) %s)", BV64, BV64, i64(0)), nl}, true
	}
	return nil, false
}

func (c *Ctx) constSliceBacking(id string, vals []constant.Value, elem types.Type) (Val, bool) {
	key := "cslice:" + id
	if v, ok := c.constArrVals[key]; ok {
		return v, v != nil
	}
	lv, ok := c.constInnerArray(vals, elem, int64(len(vals)))
	if !ok {
		c.constArrVals[key] = nil
		return nil, false
	}
	c.constArrVals[key] = lv
	return lv, true
}

// constArrayFor returns the lifted constant contents for a constant global array.
func (c *Ctx) constArrayFor(p PtrV) (Val, bool) {
	gi := c.w.globals[p.Global]
	if gi == nil || gi.stored || gi.init == nil {
		return nil, false
	}
	if v, ok := c.constArrVals[p.Global]; ok {
		return v, v != nil
	}
	at, ok := gi.g.Type().(*types.Pointer).Elem().Underlying().(*types.Array)
	if !ok {
		return nil, false
	}
	vals, ok := c.constElems(gi, at.Elem())
	if !ok {
		c.constArrVals[p.Global] = nil
		return nil, false
	}
	lv, ok := c.constInnerArray(vals, at.Elem(), at.Len())
	if !ok {
		c.constArrVals[p.Global] = nil
		return nil, false
	}
	c.constArrVals[p.Global] = lv
	return lv, true
}

func (c *Ctx) nilCheck(reach string, ref string, pos token.Pos, what string) {
	if _, err := strconv.Atoi(ref); err == nil && ref != "0" {
		return
	}
	if strings.HasPrefix(ref, "(+ top") || strings.HasPrefix(ref, "(+ "+c.top) {
		return
	}
	c.oblige("nil", "", reach, fmt.Sprintf("(not (= %s 0))", ref), pos, what+" != nil")
}

func (c *Ctx) instr(fr *Frame, st *State, reach string, ins ssa.Instruction) {
	pos := ins.Pos()
	switch x := ins.(type) {
	case *ssa.Alloc:
		et := x.Type().(*types.Pointer).Elem()
		if x.Heap || sliced(x) {
			if _, isArr := et.Underlying().(*types.Array); isArr {
				nr := c.newRef()
				c.localObjs = append(c.localObjs, nr)
				id := "(* 4096 " + nr + ")"
				p := PtrV{Kind: 2, ArrId: id, Idx: WHOLE, Elem: et, Root: et.Underlying().(*types.Array).Elem()}
				fr.env[x] = p
				c.store(st, p, c.zero(et))
				return
			}
			ref := c.newRef()
			c.localObjs = append(c.localObjs, ref)
			fr.env[x] = Sc{ref, "Int"}
			c.store(st, PtrV{Kind: 1, Ref: ref, Root: et, Elem: et}, c.zero(et))
			return
		}
		fr.env[x] = PtrV{Kind: 0, Alloc: x, Elem: et}
		st.locals[x] = c.zero(et)
	case *ssa.Store:
		pv := c.val(fr, x.Addr)
		p, ok := pv.(PtrV)
		if !ok {
			ref := pv.(Sc).T
			c.nilCheck(reach, ref, pos, exprText(x.Addr))
			et := x.Addr.Type().Underlying().(*types.Pointer).Elem()
			p = PtrV{Kind: 1, Ref: ref, Root: et, Elem: et}
		}
		c.store(st, p, c.val(fr, x.Val))
	case *ssa.UnOp:
		switch x.Op {
		case token.MUL:
			pv := c.val(fr, x.X)
			p, ok := pv.(PtrV)
			if !ok {
				ref := pv.(Sc).T
				c.nilCheck(reach, ref, pos, exprText(x.X))
				et := x.X.Type().Underlying().(*types.Pointer).Elem()
				p = PtrV{Kind: 1, Ref: ref, Root: et, Elem: et}
			}
			if p.Kind == 2 && p.Global != "" {
				if lv, ok := c.constArrayFor(p); ok {
					if p.Idx == WHOLE {
						at := p.Elem.Underlying().(*types.Array)
						fr.env[x] = ArrV{A: lv, N: at.Len(), Elem: at.Elem()}
					} else {
						fr.env[x] = sel(lv, p.Idx)
					}
					return
				}
			}
			fr.env[x] = c.load(st, p)
			if g, isG := x.X.(*ssa.Global); isG && g.Pkg != nil && !strings.HasPrefix(g.Pkg.Pkg.Path(), modulePath) {
				// an error variable of a dependency (io.EOF, bufio.ErrBufferFull, ...): a non-nil sentinel
				if iv, ok := fr.env[x].(IfaceV); ok && types.Identical(x.Type(), errType) && (strings.HasPrefix(g.Name(), "Err") || g.Name() == "EOF") {
					c.assume("true", fmt.Sprintf("(not (= %s 0))", iv.Tag))
					c.depsUsed["error variables of dependencies (io.EOF, bufio.ErrBufferFull, ...) are non-nil sentinels"] = true
				}
			}
		case token.NOT:
			fr.env[x] = Sc{not(c.val(fr, x.X).(Sc).T), "Bool"}
		case token.SUB:
			a := c.val(fr, x.X).(Sc)
			if isBV(a.S) {
				fr.env[x] = Sc{"(bvneg " + a.T + ")", a.S}
			} else {
				fr.env[x] = Sc{"(fp.neg " + a.T + ")", a.S}
			}
		case token.XOR:
			a := c.val(fr, x.X).(Sc)
			fr.env[x] = Sc{"(bvnot " + a.T + ")", a.S}
		default:
			bail("unop %s", x.Op)
		}
	case *ssa.BinOp:
		fr.env[x] = c.binop(fr, st, reach, x)
	case *ssa.Convert:
		fr.env[x] = c.convert(fr, st, reach, x)
	case *ssa.ChangeType:
		fr.env[x] = c.val(fr, x.X)
	case *ssa.FieldAddr:
		base := c.val(fr, x.X)
		sty := x.X.Type().Underlying().(*types.Pointer).Elem()
		ft := sty.Underlying().(*types.Struct).Field(x.Field).Type()
		p, ok := base.(PtrV)
		if !ok {
			ref := base.(Sc).T
			c.nilCheck(reach, ref, pos, exprText(x.X))
			p = PtrV{Kind: 1, Ref: ref, Root: sty}
		}
		np := p
		np.Path = append(append([]PathEl{}, p.Path...), PathEl{Field: x.Field})
		np.Elem = ft
		if at, isArr := ft.Underlying().(*types.Array); isArr && p.Kind == 1 {
			key, _ := fieldPathStr(np.Root, np.Path)
			np = PtrV{Kind: 2, ArrId: arrIdOf(p.Ref, p.keyPfx()+key), Idx: WHOLE, Elem: ft, Root: at.Elem()}
		} else if isArr && p.Kind == 2 {
			bail("array field inside memory element")
		}
		fr.env[x] = np
	case *ssa.Field:
		fr.env[x] = c.val(fr, x.X).(StructV).F[x.Field]
	case *ssa.IndexAddr:
		idx := c.toI64(c.val(fr, x.Index), x.Index.Type())
		switch xt := x.X.Type().Underlying().(type) {
		case *types.Slice:
			s := c.val(fr, x.X).(SliceV)
			c.oblige("index", "", reach, fmt.Sprintf("(and (bvsle %s %s) (bvslt %s %s))", i64(0), idx, idx, s.Len), pos, exprText(x.X)+"["+exprText(x.Index)+"] in range")
			fr.env[x] = PtrV{Kind: 2, ArrId: s.Arr, Idx: c.name("ix", BV64, "(bvadd "+s.Off+" "+idx+")"), Elem: xt.Elem(), Root: xt.Elem()}
		case *types.Pointer:
			at := xt.Elem().Underlying().(*types.Array)
			c.oblige("index", "", reach, fmt.Sprintf("(and (bvsle %s %s) (bvslt %s %s))", i64(0), idx, idx, i64(at.Len())), pos, exprText(x.X)+"["+exprText(x.Index)+"] in range")
			pv := c.val(fr, x.X)
			p, ok := pv.(PtrV)
			if !ok {
				// opaque pointer to an array object
				ref := pv.(Sc).T
				c.nilCheck(reach, ref, pos, exprText(x.X))
				p = PtrV{Kind: 2, ArrId: "(* 4096 " + ref + ")", Idx: WHOLE, Elem: xt.Elem(), Root: at.Elem()}
			}
			if p.Kind == 2 {
				if p.Idx != WHOLE {
					bail("nested array index in memory")
				}
				np := PtrV{Kind: 2, ArrId: p.ArrId, Idx: idx, Elem: at.Elem(), Root: at.Elem(), Global: p.Global}
				fr.env[x] = np
				return
			}
			if p.Kind == 1 {
				bail("array in heap path")
			}
			np := p
			np.Path = append(append([]PathEl{}, p.Path...), PathEl{Field: -1, Idx: idx})
			np.Elem = at.Elem()
			fr.env[x] = np
		default:
			bail("indexaddr on %s", x.X.Type())
		}
	case *ssa.Index:
		idx := c.toI64(c.val(fr, x.Index), x.Index.Type())
		switch xt := x.X.Type().Underlying().(type) {
		case *types.Array:
			c.oblige("index", "", reach, fmt.Sprintf("(and (bvsle %s %s) (bvslt %s %s))", i64(0), idx, idx, i64(xt.Len())), pos, exprText(x.X)+"["+exprText(x.Index)+"] in range")
			fr.env[x] = sel(c.val(fr, x.X).(ArrV).A, idx)
		case *types.Basic:
			s := c.val(fr, x.X).(StrV)
			c.oblige("index", "", reach, fmt.Sprintf("(and (bvsle %s %s) (bvslt %s %s))", i64(0), idx, idx, s.Len), pos, exprText(x.X)+"["+exprText(x.Index)+"] in range")
			fr.env[x] = Sc{fmt.Sprintf("(select %s (bvadd %s %s))", s.Data, s.Off, idx), BV8}
		default:
			bail("index on %s", x.X.Type())
		}
	case *ssa.Slice:
		c.sliceOp(fr, st, reach, x)
	case *ssa.Lookup:
		c.lookup(fr, st, reach, x)
	case *ssa.Extract:
		fr.env[x] = c.val(fr, x.Tuple).(TupleV).V[x.Index]
	case *ssa.Call:
		fr.env[x] = c.call(fr, st, reach, x, &x.Call, x.Type())
	case *ssa.MakeInterface:
		v := c.val(fr, x.X)
		tag := strconv.Itoa(c.w.typeTag(x.X.Type()))
		if r, ok := ptrAsRef(v); ok && r.S == "Int" {
			if _, isPtr := x.X.Type().Underlying().(*types.Pointer); isPtr {
				fr.env[x] = IfaceV{tag, r.T}
				return
			}
		}
		if _, isP := v.(PtrV); isP {
			bail("interior/local pointer stored in interface")
		}
		ref := c.fresh("ibox", "Int")
		c.assume("true", fmt.Sprintf("(> %s 0)", ref))
		fr.env[x] = IfaceV{tag, ref}
		c.boxed[ref] = boxedVal{v, x.X.Type()}
	case *ssa.TypeAssert:
		c.typeAssert(fr, st, reach, x)
	case *ssa.ChangeInterface:
		fr.env[x] = c.val(fr, x.X)
	case *ssa.MakeSlice:
		ln := c.toI64(c.val(fr, x.Len), x.Len.Type())
		cp := c.toI64(c.val(fr, x.Cap), x.Cap.Type())
		c.oblige("make", "", reach, fmt.Sprintf("(and (bvsle %s %s) (bvsle %s %s) (bvsle %s #x0000ffffffffffff))", i64(0), ln, ln, cp, cp), pos, "make: 0 <= len <= cap")
		mref := c.newRef()
		c.localObjs = append(c.localObjs, mref)
		id := "(* 4096 " + mref + ")"
		et := x.Type().Underlying().(*types.Slice).Elem()
		sv := SliceV{id, i64(0), ln, cp, et}
		// zeroed contents
		c.storeLiftedMemZero(st, id, et)
		fr.env[x] = sv
		c.allocSites = append(c.allocSites, allocSite{pos: c.fset.Position(pos), what: "make(" + types.TypeString(x.Type(), nil) + ")", size: ln, reach: reach, ndecl: len(c.decls), nasm: len(c.asms), elem: et})
	case *ssa.Defer:
		d := deferred{call: x, reach: reach}
		for _, a := range x.Call.Args {
			d.args = append(d.args, c.val(fr, a))
		}
		if !x.Call.IsInvoke() {
			if _, isF := x.Call.Value.(*ssa.Function); !isF {
				if _, isB := x.Call.Value.(*ssa.Builtin); !isB {
					if mc, isC := x.Call.Value.(*ssa.MakeClosure); isC {
						for _, b := range mc.Bindings {
							d.bind = append(d.bind, c.val(fr, b))
						}
					} else {
						d.fnv = c.val(fr, x.Call.Value)
					}
				}
			}
		} else {
			d.fnv = c.val(fr, x.Call.Value)
		}
		fr.defers = append(fr.defers, d)
	case *ssa.RunDefers:
		for i := len(fr.defers) - 1; i >= 0; i-- {
			d := fr.defers[i]
			if mc, isC := d.call.Call.Value.(*ssa.MakeClosure); isC {
				if isRecoverClosure(mc.Fn.(*ssa.Function)) {
					c.notes["recover-defer"]++
					continue
				}
				// a deferred closure is executed at the function's exit with its captured variables bound
				cfn := mc.Fn.(*ssa.Function)
				if !noLoops(cfn) || fr.depth >= maxInlineDepth {
					bail("deferred closure with loops")
				}
				c.pendingBindings = d.bind
				if c.pendingBindings == nil {
					c.pendingBindings = []Val{}
				}
				c.inlineChain = append(c.inlineChain, shortFn(cfn))
				_, out, rr := c.exec(cfn, d.args, st.clone(), and(reach, d.reach), fr.depth+1)
				c.inlineChain = c.inlineChain[:len(c.inlineChain)-1]
				if rr != "false" {
					merged := c.mergeStates([]string{not(d.reach), d.reach}, []*State{st.clone(), out})
					if d.reach == "true" {
						merged = out
					}
					locals := st.locals
					*st = *merged
					for k, v := range locals {
						if _, ok := st.locals[k]; !ok {
							st.locals[k] = v
						}
					}
				}
				c.notes["deferred-closure"]++
				continue
			}
			c.callWith(fr, st, and(reach, d.reach), &d.call.Call, d.call.Pos(), d.args, d.fnv, nil)
		}
	case *ssa.MakeClosure:
		fn := x.Fn.(*ssa.Function)
		if isRecoverClosure(fn) {
			fr.env[x] = Sc{"79", "Int"}
			return
		}
		if strings.HasPrefix(fn.Synthetic, "bound method") {
			// a method value (x.M) used as a function value: a non-nil function; calls through it go by the callback
			// contract of the field/parameter it is bound to (the binding itself is an assumed refinement, listed)
			c.notes["method-value:"+fn.Name()]++
			checked := false
			if len(x.Bindings) == 1 && fr.isRoot && !c.specMode {
				checked = c.refineBoundMethod(fr, st, reach, x, fn, c.val(fr, x.Bindings[0]))
			}
			if checked {
				c.depsUsed["method value "+fn.Name()+" bound as a callback: its preconditions are checked against the callback contract at the binding site, and its contract against the callback postconditions declared `bindensures` (obligations `refines`); the callback contract's other postconditions and its frame are assumed of the method"] = true
			} else {
				c.depsUsed["method value "+fn.Name()+" passed as a callback: assumed to satisfy the callback contract of its use site (refinement not checked)"] = true
			}
			c.n++
			fr.env[x] = Sc{fmt.Sprintf("%d", 1000+c.n), "Int"}
			return
		}
		for _, r := range *x.Referrers() {
			switch r.(type) {
			case *ssa.Defer, *ssa.DebugRef:
			default:
				bail("closure value")
			}
		}
		fr.env[x] = Sc{"79", "Int"}
	case *ssa.MakeMap:
		ref := c.newRef()
		fr.env[x] = Sc{ref, "Int"}
	case *ssa.MapUpdate:
		c.notes["map-update(untracked)"]++
	case *ssa.Range:
		fr.env[x] = Sc{"80", "Int"}
	case *ssa.Next:
		fr.env[x] = c.freshVal(x.Type(), "next")
		c.notes["range-next(opaque)"]++
	case *ssa.Go, *ssa.Select, *ssa.Send, *ssa.MakeChan:
		bail("concurrency instruction %T", ins)
	case *ssa.SliceToArrayPointer:
		bail("slice to array pointer")
	default:
		bail("instr %T", ins)
	}
}

type boxedVal struct {
	v Val
	t types.Type
}

type allocSite struct {
	pos   token.Position
	what  string
	size  string
	reach string
	ndecl int
	nasm  int
	elem  types.Type
}

func (c *Ctx) storeLiftedMemZero(st *State, id string, et types.Type) {
	defer func() {
		if r := recover(); r != nil {
			if _, ok := r.(unsupported); ok {
				c.notes["make: zeroing of element type not modelled"]++
				return
			}
			panic(r)
		}
	}()
	z := c.zeroLifted(et, 1)
	c.storeLiftedMem(st, id, z, et, typeKey(et), "")
}

func isRecoverClosure(fn *ssa.Function) bool {
	for _, b := range fn.Blocks {
		for _, ins := range b.Instrs {
			if call, ok := ins.(*ssa.Call); ok {
				if bi, ok := call.Call.Value.(*ssa.Builtin); ok && bi.Name() == "recover" {
					return true
				}
			}
		}
	}
	return false
}

func sliced(a *ssa.Alloc) bool {
	if _, ok := a.Type().(*types.Pointer).Elem().Underlying().(*types.Array); !ok {
		return false
	}
	if a.Referrers() == nil {
		return false
	}
	for _, r := range *a.Referrers() {
		switch r.(type) {
		case *ssa.Slice, *ssa.Call:
			return true
		}
	}
	return false
}

func exprText(v ssa.Value) string {
	switch x := v.(type) {
	case *ssa.Const:
		if x.Value != nil {
			return x.Value.String()
		}
		return "zero"
	case *ssa.Parameter:
		return x.Name()
	case *ssa.Alloc:
		return "&" + x.Comment
	case *ssa.UnOp:
		if x.Op == token.MUL {
			if a, ok := x.X.(*ssa.Alloc); ok {
				return a.Comment
			}
			return "*" + exprText(x.X)
		}
		return x.Op.String() + exprText(x.X)
	case *ssa.FieldAddr:
		st := x.X.Type().Underlying().(*types.Pointer).Elem().Underlying().(*types.Struct)
		return strings.TrimPrefix(exprText(x.X), "&") + "." + st.Field(x.Field).Name()
	case *ssa.Field:
		st := x.X.Type().Underlying().(*types.Struct)
		return exprText(x.X) + "." + st.Field(x.Field).Name()
	case *ssa.BinOp:
		return "(" + exprText(x.X) + " " + x.Op.String() + " " + exprText(x.Y) + ")"
	case *ssa.Convert:
		return types.TypeString(x.Type(), func(*types.Package) string { return "" }) + "(" + exprText(x.X) + ")"
	case *ssa.Global:
		return x.Name()
	case *ssa.IndexAddr:
		return exprText(x.X) + "[" + exprText(x.Index) + "]"
	case *ssa.Call:
		return x.Call.Value.Name() + "(...)"
	case *ssa.Extract:
		return exprText(x.Tuple) + "#" + strconv.Itoa(x.Index)
	}
	return v.Name()
}

func (c *Ctx) sliceOp(fr *Frame, st *State, reach string, x *ssa.Slice) {
	get := func(v ssa.Value, def string) string {
		if v == nil {
			return def
		}
		return c.toI64(c.val(fr, v), v.Type())
	}
	txt := func() string {
		s := exprText(x.X) + "["
		if x.Low != nil {
			s += exprText(x.Low)
		}
		s += ":"
		if x.High != nil {
			s += exprText(x.High)
		}
		if x.Max != nil {
			s += ":" + exprText(x.Max)
		}
		return s + "] within bounds"
	}
	switch xt := x.X.Type().Underlying().(type) {
	case *types.Slice:
		s := c.val(fr, x.X).(SliceV)
		lo, hi := get(x.Low, i64(0)), get(x.High, s.Len)
		mx := get(x.Max, s.Cap)
		c.oblige("slice", "", reach, fmt.Sprintf("(and (bvsle %s %s) (bvsle %s %s) (bvsle %s %s) (bvsle %s %s))", i64(0), lo, lo, hi, hi, mx, mx, s.Cap), x.Pos(), txt())
		fr.env[x] = SliceV{s.Arr, c.name("so", BV64, "(bvadd "+s.Off+" "+lo+")"), c.name("sl", BV64, "(bvsub "+hi+" "+lo+")"), c.name("sc", BV64, "(bvsub "+mx+" "+lo+")"), xt.Elem()}
	case *types.Basic:
		s := c.val(fr, x.X).(StrV)
		lo, hi := get(x.Low, i64(0)), get(x.High, s.Len)
		c.oblige("slice", "", reach, fmt.Sprintf("(and (bvsle %s %s) (bvsle %s %s) (bvsle %s %s))", i64(0), lo, lo, hi, hi, s.Len), x.Pos(), txt())
		fr.env[x] = StrV{s.Data, c.name("so", BV64, "(bvadd "+s.Off+" "+lo+")"), c.name("sl", BV64, "(bvsub "+hi+" "+lo+")")}
	case *types.Pointer:
		at := xt.Elem().Underlying().(*types.Array)
		n := i64(at.Len())
		lo, hi := get(x.Low, i64(0)), get(x.High, n)
		mx := get(x.Max, n)
		c.oblige("slice", "", reach, fmt.Sprintf("(and (bvsle %s %s) (bvsle %s %s) (bvsle %s %s) (bvsle %s %s))", i64(0), lo, lo, hi, hi, mx, mx, n), x.Pos(), txt())
		pv := c.val(fr, x.X)
		p, ok := pv.(PtrV)
		var id string
		if ok && p.Kind == 2 && p.Idx == WHOLE {
			id = p.ArrId
		} else if sc, ok := pv.(Sc); ok {
			c.nilCheck(reach, sc.T, x.Pos(), exprText(x.X))
			id = "(* 4096 " + sc.T + ")"
		} else {
			bail("slice of non-memory array")
		}
		fr.env[x] = SliceV{id, lo, c.name("sl", BV64, "(bvsub "+hi+" "+lo+")"), c.name("sc", BV64, "(bvsub "+mx+" "+lo+")"), at.Elem()}
	default:
		bail("slice of %s", x.X.Type())
	}
}

// arith applies a Go binary operator on two scalars of Go type t (operand type).
func (c *Ctx) arith(op token.Token, a, b Sc, t types.Type, yt types.Type, reach string, pos token.Pos, txt string) Val {
	if a.S == "Int" || b.S == "Int" || a.S == "Bool" {
		switch op {
		case token.EQL:
			return Sc{fmt.Sprintf("(= %s %s)", a.T, b.T), "Bool"}
		case token.NEQ:
			return Sc{fmt.Sprintf("(not (= %s %s))", a.T, b.T), "Bool"}
		case token.LAND, token.AND:
			return Sc{and(a.T, b.T), "Bool"}
		case token.LOR, token.OR:
			return Sc{or(a.T, b.T), "Bool"}
		}
		bail("binop %s on refs/bools", op)
	}
	if a.S == "F32" || a.S == "F64" {
		switch op {
		case token.EQL:
			return Sc{fmt.Sprintf("(fp.eq %s %s)", a.T, b.T), "Bool"}
		case token.NEQ:
			return Sc{fmt.Sprintf("(not (fp.eq %s %s))", a.T, b.T), "Bool"}
		case token.LSS:
			return Sc{fmt.Sprintf("(fp.lt %s %s)", a.T, b.T), "Bool"}
		case token.LEQ:
			return Sc{fmt.Sprintf("(fp.leq %s %s)", a.T, b.T), "Bool"}
		case token.GTR:
			return Sc{fmt.Sprintf("(fp.gt %s %s)", a.T, b.T), "Bool"}
		case token.GEQ:
			return Sc{fmt.Sprintf("(fp.geq %s %s)", a.T, b.T), "Bool"}
		}
		// arithmetic on floats is uninterpreted (functional, per operator and width)
		fn := map[token.Token]string{token.ADD: "fadd", token.SUB: "fsub", token.MUL: "fmul", token.QUO: "fdiv"}[op]
		if fn == "" {
			bail("float op %s", op)
		}
		c.notes["float-arith(uninterpreted)"]++
		return Sc{fmt.Sprintf("(%s_%s %s %s)", fn, a.S, a.T, b.T), a.S}
	}
	w, signed, _ := bvw(t)
	sort := bvsort(w)
	sg := func(s, u string) string {
		if signed {
			return s
		}
		return u
	}
	bin := func(o string) Val { return Sc{c.name("b", sort, fmt.Sprintf("(%s %s %s)", o, a.T, b.T)), sort} }
	cmp := func(o string) Val { return Sc{fmt.Sprintf("(%s %s %s)", o, a.T, b.T), "Bool"} }
	switch op {
	case token.ADD:
		return bin("bvadd")
	case token.SUB:
		return bin("bvsub")
	case token.MUL:
		return bin("bvmul")
	case token.QUO, token.REM:
		if reach != "" {
			c.oblige("div", "", reach, fmt.Sprintf("(not (= %s %s))", b.T, bvlit(w, 0)), pos, txt+": divisor != 0")
		}
		constDiv := strings.HasPrefix(b.T, "#x") || strings.HasPrefix(b.T, "#b")
		if !constDiv && (w == 8 || w == 16 || w == 32 || w == 64) {
			if op == token.QUO {
				return bin(fmt.Sprintf("%s%d", sg("sdiv", "udiv"), w))
			}
			return bin(fmt.Sprintf("%s%d", sg("srem", "urem"), w))
		}
		if op == token.QUO {
			return bin(sg("bvsdiv", "bvudiv"))
		}
		return bin(sg("bvsrem", "bvurem"))
	case token.AND:
		return bin("bvand")
	case token.OR:
		return bin("bvor")
	case token.XOR:
		return bin("bvxor")
	case token.AND_NOT:
		return Sc{fmt.Sprintf("(bvand %s (bvnot %s))", a.T, b.T), sort}
	case token.SHL, token.SHR:
		wy, sy, _ := bvw(yt)
		cnt := b.T
		if sy && reach != "" {
			c.oblige("shift", "", reach, fmt.Sprintf("(bvsge %s %s)", b.T, bvlit(wy, 0)), pos, txt+": shift count >= 0")
		}
		if wy < w {
			cnt = fmt.Sprintf("((_ zero_extend %d) %s)", w-wy, cnt)
		} else if wy > w {
			cnt = fmt.Sprintf("(ite (bvuge %s %s) %s ((_ extract %d 0) %s))", b.T, bvlit(wy, uint64(w)), bvlit(w, uint64(w)), w-1, b.T)
		}
		o := "bvshl"
		if op == token.SHR {
			o = sg("bvashr", "bvlshr")
		}
		return Sc{c.name("sh", sort, fmt.Sprintf("(%s %s %s)", o, a.T, cnt)), sort}
	case token.EQL:
		return cmp("=")
	case token.NEQ:
		return Sc{fmt.Sprintf("(not (= %s %s))", a.T, b.T), "Bool"}
	case token.LSS:
		return cmp(sg("bvslt", "bvult"))
	case token.LEQ:
		return cmp(sg("bvsle", "bvule"))
	case token.GTR:
		return cmp(sg("bvsgt", "bvugt"))
	case token.GEQ:
		return cmp(sg("bvsge", "bvuge"))
	}
	bail("binop %s", op)
	return nil
}

func (c *Ctx) binop(fr *Frame, st *State, reach string, x *ssa.BinOp) Val {
	a0, b0 := c.val(fr, x.X), c.val(fr, x.Y)
	if sa, ok := a0.(StrV); ok {
		sb := b0.(StrV)
		switch x.Op {
		case token.EQL:
			return Sc{c.strEq(sa, sb), "Bool"}
		case token.NEQ:
			return Sc{not(c.strEq(sa, sb)), "Bool"}
		case token.ADD:
			r := c.freshVal(x.Type(), "strcat").(StrV)
			c.assume("true", fmt.Sprintf("(= %s (bvadd %s %s))", r.Len, sa.Len, sb.Len))
			c.allocSites = append(c.allocSites, allocSite{pos: c.fset.Position(x.Pos()), what: "string concatenation", size: r.Len, reach: reach, ndecl: len(c.decls), nasm: len(c.asms)})
			return r
		}
		return Sc{c.fresh("strcmp", "Bool"), "Bool"}
	}
	if ia, ok := a0.(IfaceV); ok {
		ib, ok := b0.(IfaceV)
		if !ok {
			bail("iface compared with %T", b0)
		}
		eq := c.ifaceEq(ia, ib)
		if x.Op == token.NEQ {
			eq = not(eq)
		}
		return Sc{eq, "Bool"}
	}
	if sa, ok := a0.(SliceV); ok { // comparison with nil
		eq := fmt.Sprintf("(= %s 0)", sa.Arr)
		if sb, ok := b0.(SliceV); ok && sb.Arr != "0" {
			eq = fmt.Sprintf("(= %s 0)", sb.Arr)
			_ = sa
		}
		if x.Op == token.NEQ {
			eq = not(eq)
		}
		return Sc{eq, "Bool"}
	}
	a, okA := ptrAsRef(a0)
	b, okB := ptrAsRef(b0)
	if !okA || !okB {
		if x.Op == token.EQL || x.Op == token.NEQ {
			if _, ok := a0.(StructV); ok {
				eq := valEq(a0, b0)
				if x.Op == token.NEQ {
					eq = not(eq)
				}
				return Sc{eq, "Bool"}
			}
			if _, ok := a0.(ArrV); ok {
				c.notes["array-compare(opaque)"]++
				return Sc{c.fresh("cmp", "Bool"), "Bool"}
			}
			// interior pointer comparisons
			pa, ok1 := a0.(PtrV)
			_, ok2 := b0.(Sc)
			if ok1 && ok2 && pa.Kind != 1 {
				// &local == nil
				r := "false"
				if x.Op == token.NEQ {
					r = "true"
				}
				return Sc{r, "Bool"}
			}
			return Sc{c.fresh("cmp", "Bool"), "Bool"}
		}
		bail("binop on %T", a0)
	}
	return c.arith(x.Op, a, b, x.X.Type(), x.Y.Type(), reach, x.Pos(), exprText(x))
}

func (c *Ctx) ifaceEq(a, b IfaceV) string {
	if b.Tag == "0" {
		return fmt.Sprintf("(= %s 0)", a.Tag)
	}
	if a.Tag == "0" {
		return fmt.Sprintf("(= %s 0)", b.Tag)
	}
	// equal dynamic type and identical payload reference => equal; pointer payloads: iff
	return fmt.Sprintf("(and (= %s %s) (= %s %s))", a.Tag, b.Tag, a.Ref, b.Ref)
}

// strEq: exact string equality when one side has a constant length; otherwise length-indexed UF.
func (c *Ctx) strEq(a, b StrV) string {
	by := func(s StrV, k int) string {
		return fmt.Sprintf("(select %s (bvadd %s %s))", s.Data, s.Off, i64(int64(k)))
	}
	constLen := func(s StrV) (int, bool) {
		if strings.HasPrefix(s.Len, "#x") {
			n, err := strconv.ParseInt(s.Len[2:], 16, 64)
			if err == nil && n <= 256 {
				return int(n), true
			}
		}
		return 0, false
	}
	n, ok := constLen(a)
	if !ok {
		n, ok = constLen(b)
	}
	if ok {
		parts := []string{fmt.Sprintf("(= %s %s)", a.Len, b.Len)}
		for k := 0; k < n; k++ {
			parts = append(parts, fmt.Sprintf("(= %s %s)", by(a, k), by(b, k)))
		}
		return c.name("seq", "Bool", and(parts...))
	}
	// general case: equality of lengths and of the first 32 bytes is necessary; beyond that uninterpreted
	c.notes["string-eq(symbolic lengths)"]++
	parts := []string{fmt.Sprintf("(= %s %s)", a.Len, b.Len)}
	for k := 0; k < 32; k++ {
		parts = append(parts, fmt.Sprintf("(=> (bvsgt %s %s) (= %s %s))", a.Len, i64(int64(k)), by(a, k), by(b, k)))
	}
	long := c.fresh("streq", "Bool")
	return c.name("seq", "Bool", fmt.Sprintf("(and %s (or (bvsle %s %s) %s))", strings.Join(parts, " "), a.Len, i64(32), long))
}

func (c *Ctx) convert(fr *Frame, st *State, reach string, x *ssa.Convert) Val {
	v := c.val(fr, x.X)
	return c.convertVal(v, x.X.Type(), x.Type(), st, reach, x.Pos())
}

func (c *Ctx) convertVal(v Val, from, to types.Type, st *State, reach string, pos token.Pos) Val {
	wf, sf, okf := bvw(from)
	wt, st_, okt := bvw(to)
	if okf && okt {
		a := v.(Sc).T
		sort := bvsort(wt)
		switch {
		case wt == wf:
			return Sc{a, sort}
		case wt < wf:
			return Sc{fmt.Sprintf("((_ extract %d 0) %s)", wt-1, a), sort}
		case sf:
			return Sc{fmt.Sprintf("((_ sign_extend %d) %s)", wt-wf, a), sort}
		default:
			return Sc{fmt.Sprintf("((_ zero_extend %d) %s)", wt-wf, a), sort}
		}
	}
	if okf && isFloat(to) {
		srt, _ := scalarSort(to)
		eb, sb := 11, 53
		if srt == "F32" {
			eb, sb = 8, 24
		}
		a := v.(Sc).T
		if !strings.HasPrefix(a, "#x") && !strings.HasPrefix(a, "#b") {
			// a non-constant integer converted to floating point: uninterpreted (like the float arithmetic itself) -
			// a sound abstraction: what is proved holds for every interpretation, in particular IEEE rounding
			sg := "u"
			if sf {
				sg = "s"
			}
			return Sc{fmt.Sprintf("(i2f_%s%d_%s %s)", sg, wf, srt, a), srt}
		}
		if sf {
			return Sc{fmt.Sprintf("((_ to_fp %d %d) RNE %s)", eb, sb, a), srt}
		}
		return Sc{fmt.Sprintf("((_ to_fp_unsigned %d %d) RNE %s)", eb, sb, a), srt}
	}
	if isFloat(from) && okt {
		c.notes["float->int(uninterpreted)"]++
		_ = st_
		return Sc{c.fresh("f2i", bvsort(wt)), bvsort(wt)}
	}
	if isFloat(from) && isFloat(to) {
		sf_, _ := scalarSort(from)
		stt, _ := scalarSort(to)
		if sf_ == stt {
			return v
		}
		eb, sb := 11, 53
		if stt == "F32" {
			eb, sb = 8, 24
		}
		return Sc{fmt.Sprintf("((_ to_fp %d %d) RNE %s)", eb, sb, v.(Sc).T), stt}
	}
	if isString(to) {
		if sv, ok := v.(SliceV); ok { // string(bytes): snapshot of the bytes
			data := fmt.Sprintf("(select %s %s)", c.memGet(st, "uint8", BV8), sv.Arr)
			c.allocSites = append(c.allocSites, allocSite{pos: c.fset.Position(pos), what: "string([]byte)", size: sv.Len, reach: reach, ndecl: len(c.decls), nasm: len(c.asms)})
			return StrV{c.name("sdat", INNER8, data), sv.Off, sv.Len}
		}
		if sc, ok := v.(Sc); ok && isBV(sc.S) { // string(rune)
			r := c.freshVal(to, "runestr").(StrV)
			c.assume("true", fmt.Sprintf("(bvsle %s %s)", r.Len, i64(4)))
			return r
		}
		if s, ok := v.(StrV); ok {
			return s
		}
	}
	if sl, ok := to.Underlying().(*types.Slice); ok {
		if s, ok := v.(StrV); ok { // []byte(string): fresh array holding the same bytes
			id := "(* 4096 " + c.newRef() + ")"
			m := c.memGet(st, "uint8", BV8)
			st.mem["uint8"] = c.name("ms", "(Array Int "+INNER8+")", fmt.Sprintf("(store %s %s %s)", m, id, s.Data))
			c.allocSites = append(c.allocSites, allocSite{pos: c.fset.Position(pos), what: "[]byte(string)", size: s.Len, reach: reach, ndecl: len(c.decls), nasm: len(c.asms)})
			return SliceV{id, s.Off, s.Len, s.Len, sl.Elem()}
		}
		if s, ok := v.(SliceV); ok {
			return s
		}
	}
	if s, ok := scalarSort(to); ok {
		if sc, ok := v.(Sc); ok && sc.S == s {
			return sc
		}
		return Sc{c.fresh("conv", s), s}
	}
	bail("convert %s -> %s", from, to)
	return nil
}

func (c *Ctx) typeAssert(fr *Frame, st *State, reach string, x *ssa.TypeAssert) {
	v := c.val(fr, x.X)
	iv, ok := v.(IfaceV)
	if !ok {
		bail("type assert on %T", v)
	}
	var okTerm string
	var res Val
	if isIface(x.AssertedType) {
		// interface-to-interface: dynamic type implements? uninterpreted predicate on the tag (false for nil)
		pn := "impl_" + sanitizeSym(types.TypeString(x.AssertedType, func(p *types.Package) string { return p.Name() }))
		if !c.ufDecl[pn] {
			c.ufDecl[pn] = true
			c.decls = append(c.decls, fmt.Sprintf("(declare-fun %s (Int) Bool)", pn))
		}
		okTerm = fmt.Sprintf("(and (not (= %s 0)) (%s %s))", iv.Tag, pn, iv.Tag)
		if isEmptyIface(x.AssertedType) {
			okTerm = fmt.Sprintf("(not (= %s 0))", iv.Tag)
		}
		if isErrorIface(x.AssertedType) && c.isErrorTag(iv.Tag) {
			okTerm = "true"
		}
		res = iv
	} else {
		tag := strconv.Itoa(c.w.typeTag(x.AssertedType))
		okTerm = fmt.Sprintf("(= %s %s)", iv.Tag, tag)
		if _, isPtr := x.AssertedType.Underlying().(*types.Pointer); isPtr {
			res = Sc{iv.Ref, "Int"}
		} else if bv, ok := c.boxed[iv.Ref]; ok && types.Identical(bv.t, x.AssertedType) {
			res = bv.v
		} else {
			res = c.freshVal(x.AssertedType, "ta")
		}
	}
	if x.CommaOk {
		z := c.zero(x.AssertedType)
		var rv Val
		func() {
			defer func() {
				if r := recover(); r != nil {
					rv = res
				}
			}()
			rv = c.ite(okTerm, res, z)
		}()
		fr.env[x] = TupleV{V: []Val{rv, Sc{okTerm, "Bool"}}}
		return
	}
	c.oblige("typeassert", "", reach, okTerm, x.Pos(), exprText(x.X)+".("+types.TypeString(x.AssertedType, func(p *types.Package) string { return p.Name() })+") holds")
	fr.env[x] = res
}

func isEmptyIface(t types.Type) bool {
	i, ok := t.Underlying().(*types.Interface)
	return ok && i.NumMethods() == 0
}
func isErrorIface(t types.Type) bool {
	return types.Identical(t, types.Universe.Lookup("error").Type())
}
func (c *Ctx) isErrorTag(tag string) bool { return false }

// lookup handles map and string indexing.
func (c *Ctx) lookup(fr *Frame, st *State, reach string, x *ssa.Lookup) {
	if mt, ok := x.X.Type().Underlying().(*types.Map); ok {
		mv := c.val(fr, x.X)
		key := c.val(fr, x.Index)
		if sc, ok := mv.(Sc); ok {
			if n, err := strconv.Atoi(sc.T); err == nil {
				if v, okc := c.constMapLookup(n, mt, key, x.CommaOk); okc {
					fr.env[x] = v
					return
				}
			}
		}
		c.notes["map-lookup(unconstrained)"]++
		if x.CommaOk {
			fr.env[x] = TupleV{V: []Val{c.freshVal(mt.Elem(), "mapv"), Sc{c.fresh("mapok", "Bool"), "Bool"}}}
		} else {
			fr.env[x] = c.freshVal(mt.Elem(), "mapv")
		}
		return
	}
	idx := c.toI64(c.val(fr, x.Index), x.Index.Type())
	s := c.val(fr, x.X).(StrV)
	c.oblige("index", "", reach, fmt.Sprintf("(and (bvsle %s %s) (bvslt %s %s))", i64(0), idx, idx, s.Len), x.Pos(), exprText(x.X)+"["+exprText(x.Index)+"] in range")
	fr.env[x] = Sc{fmt.Sprintf("(select %s (bvadd %s %s))", s.Data, s.Off, idx), BV8}
}

// constMapLookup expands a lookup in an effectively-constant package-level map literal.
func (c *Ctx) constMapLookup(gnum int, mt *types.Map, key Val, commaOk bool) (Val, bool) {
	var gi *globalInfo
	for _, g := range c.w.globals {
		if g.num == gnum {
			gi = g
		}
	}
	if gi == nil || gi.stored || gi.init == nil {
		return nil, false
	}
	cl, ok := gi.init.(*ast.CompositeLit)
	if !ok {
		return nil, false
	}
	if len(cl.Elts) > 600 {
		return nil, false
	}
	type kv struct{ k, v constant.Value }
	var kvs []kv
	for _, el := range cl.Elts {
		e, ok := el.(*ast.KeyValueExpr)
		if !ok {
			return nil, false
		}
		kc, _, ok1 := constEval(gi.info, e.Key)
		vc, _, ok2 := constEval(gi.info, e.Value)
		if !ok1 || !ok2 {
			return nil, false
		}
		kvs = append(kvs, kv{kc, vc})
	}
	var res Val = c.zero(mt.Elem())
	found := "false"
	for i := len(kvs) - 1; i >= 0; i-- {
		kc := c.constOf(kvs[i].k, mt.Key())
		var eq string
		switch kk := key.(type) {
		case StrV:
			eq = c.strEq(kk, kc.(StrV))
		case Sc:
			eq = fmt.Sprintf("(= %s %s)", kk.T, kc.(Sc).T)
		default:
			return nil, false
		}
		vv := c.constOf(kvs[i].v, mt.Elem())
		res = c.ite(eq, vv, res)
		found = or(eq, found)
	}
	c.notes["const-map-lookup"]++
	if commaOk {
		return TupleV{V: []Val{res, Sc{c.name("mok", "Bool", found), "Bool"}}}, true
	}
	return res, true
}

// refineBoundMethod: a method value recv.M is bound to a callback slot (stored into a function-valued field, or passed
// for a function-valued parameter) that has a callback contract CB. Obligation `refines`: whenever the callback fires,
// M's precondition holds - in the state of the binding site, after forgetting everything the calling package owns and
// every stream position (what may have happened before the callback fires), for arbitrary arguments that satisfy CB's
// precondition. The receiver's own state is what it is at the binding site (the calling package cannot touch it:
// encapsulation; that M re-establishes its receiver precondition for a second invocation is NOT checked).
func (c *Ctx) refineBoundMethod(fr *Frame, st *State, reach string, x *ssa.MakeClosure, wrapper *ssa.Function, recv Val) bool {
	mobj, ok := wrapper.Object().(*types.Func)
	if !ok {
		return false
	}
	m := c.w.prog.FuncValue(mobj)
	if m == nil {
		return false
	}
	mct := c.contractFor(m)
	if mct == nil || len(mct.Requires) == 0 {
		return false
	}
	// callback slots the value flows into
	var keys []string
	for _, r := range *x.Referrers() {
		switch u := r.(type) {
		case *ssa.Store:
			if u.Val != x {
				continue
			}
			if fa, ok := u.Addr.(*ssa.FieldAddr); ok {
				if pt, ok := fa.X.Type().Underlying().(*types.Pointer); ok {
					if stt, ok := pt.Elem().Underlying().(*types.Struct); ok {
						keys = append(keys, typeKey(pt.Elem())+"."+stt.Field(fa.Field).Name())
					}
				}
			}
		case *ssa.Call:
			callee := u.Call.StaticCallee()
			if callee == nil {
				continue
			}
			for i, a := range u.Call.Args {
				if a == x && i < len(callee.Params) {
					keys = append(keys, shortFn(callee)+"."+callee.Params[i].Name())
				}
			}
		}
	}
	done := false
	for _, key := range keys {
		cb := c.w.callbackContract(key)
		if cb == nil {
			continue
		}
		pkg := key
		if i := strings.Index(pkg, "."); i >= 0 {
			pkg = pkg[:i]
		}
		st2 := st.clone()
		c.touchAll(st2)
		for k := range st2.heap {
			if ownedKey(k, pkg) || k == "ghost.pos" || k == "ghost.peeked" || k == "ghost.fault" {
				st2.heap[k] = c.freshHeap(st2.hsort[k])
			}
		}
		for k := range st2.mem {
			if ownedKey(k, pkg) {
				st2.mem[k] = c.fresh("M", st2.hsort["M:"+k])
			}
		}
		st2.gen = newGen()
		st2.pgen = nil
		c.bumpTop()
		// arbitrary arguments of the callback
		sig := m.Signature
		var args []Val
		var cbn calleeNames
		for i := 0; i < sig.Params().Len(); i++ {
			t := sig.Params().At(i).Type()
			args = append(args, c.freshVal(t, "cbarg"))
			nm := sig.Params().At(i).Name()
			cbn.params = append(cbn.params, nm)
			cbn.ptypes = append(cbn.ptypes, t)
		}
		if len(cb.Params) == len(cbn.params) {
			cbn.params = cb.Params
		}
		cenv := &CEnv{c: c, st: st2, old: st2, lookup: mkLookup(cbn, args, nil)}
		for _, rq := range cb.Requires {
			c.assume(reach, c.evalBool(cenv, rq.Expr, rq.Text))
		}
		mn := c.namesFor(mct, m, nil)
		margs := append([]Val{normPtr(recv)}, args...)
		menv := &CEnv{c: c, st: st2, old: st2, lookup: mkLookup(mn, margs, nil), pkg: mn.pkg}
		for k, rq := range mct.Requires {
			f := c.evalBool(menv, rq.Expr, rq.Text)
			c.obligeProps("refines", fmt.Sprintf("%s:%s/%d", key, shortFn(m), k), reach, f, x.Pos(), "callback contract of "+key+" implies the precondition of "+shortFn(m)+": "+rq.Text, rq.Props)
		}
		// postconditions: M's contract, applied to the state in which the callback fires, implies every ensures of CB
		// (under CB's `bindassume` hypotheses, which restrict the binding-site check and are recorded as assumptions)
		if len(cb.BindEnsures) > 0 {
			for _, rq := range mct.Requires {
				c.assume(reach, c.evalBool(menv, rq.Expr, rq.Text))
			}
			for _, ba := range cb.BindAssume {
				c.assume(reach, c.evalBool(cenv, ba.Expr, ba.Text))
				c.depsUsed["refinement of "+key+" by "+shortFn(m)+" is checked only under: "+ba.Text] = true
			}
			st3 := st2.clone()
			menv3 := &CEnv{c: c, st: st3, old: st3, lookup: mkLookup(mn, margs, nil), pkg: mn.pkg}
			topBefore := c.top
			c.applyModifies(mct, menv3, st3, reach)
			var resT types.Type = sig.Results()
			if sig.Results().Len() == 1 {
				resT = sig.Results().At(0).Type()
			}
			var res Val
			if sig.Results().Len() > 0 {
				res = c.freshVal(resT, "ret")
			}
			penv := &CEnv{c: c, st: st3, old: st2, lookup: mkLookup(mn, margs, res), pkg: mn.pkg, topBefore: topBefore}
			if len(mct.Ghosts) > 0 {
				gv := map[string]CVal{}
				for _, g := range mct.Ghosts {
					if t := ghostType(g.Type); t != nil {
						gv[g.Name] = CVal{V: c.freshVal(t, "ghost_"+g.Name), T: t}
					}
				}
				base := penv.lookup
				penv.lookup = func(name string, old bool) (CVal, bool) {
					if v, ok := gv[name]; ok {
						return v, true
					}
					return base(name, old)
				}
			}
			for _, en := range mct.Ensures {
				c.assume(reach, c.evalBool(penv, en.Expr, en.Text))
			}
			cbn2 := cbn
			for i := 0; i < sig.Results().Len(); i++ {
				nm := sig.Results().At(i).Name()
				if nm == "" || nm == "_" {
					nm = fmt.Sprintf("r%d", i)
				}
				cbn2.results = append(cbn2.results, nm)
				cbn2.rtypes = append(cbn2.rtypes, sig.Results().At(i).Type())
			}
			if len(cb.Results) == len(cbn2.results) {
				cbn2.results = cb.Results
			}
			cpenv := &CEnv{c: c, st: st3, old: st2, lookup: mkLookup(cbn2, args, res), topBefore: topBefore}
			for k, en := range cb.Ensures {
				if !cb.BindEnsures[k] {
					continue
				}
				f := c.evalBool(cpenv, en.Expr, en.Text)
				c.obligeProps("refines", fmt.Sprintf("%s:%s/post%d", key, shortFn(m), k), reach, f, x.Pos(), "contract of "+shortFn(m)+" implies the callback postcondition of "+key+": "+en.Text, en.Props)
			}
		}
		done = true
	}
	return done
}
