// replay.go - replay of solver counterexamples against the real code (go test -overlay, in-package; /repo is never written).
package main

import (
	"regexp"
	"bytes"
	"context"
	"encoding/json"
	"fmt"
	"go/ast"
	"go/printer"
	"go/token"
	"go/types"
	"math/big"
	"os"
	"os/exec"
	"path/filepath"
	"sort"
	"strconv"
	"strings"
	"time"

	"golang.org/x/tools/go/ssa"
)

type replayOut struct {
	file     string
	replayed bool
}

type modelTerm struct {
	name, sort, term string
}

const replayBytes = 160

// ---- s-expression values ----

type sx struct {
	atom string
	list []*sx
}

func parseSx(s string) []*sx {
	var stack [][]*sx
	cur := []*sx{}
	i := 0
	for i < len(s) {
		ch := s[i]
		switch {
		case ch == '(':
			stack = append(stack, cur)
			cur = []*sx{}
			i++
		case ch == ')':
			l := &sx{list: cur}
			if len(stack) == 0 {
				return cur
			}
			cur = stack[len(stack)-1]
			stack = stack[:len(stack)-1]
			cur = append(cur, l)
			i++
		case ch == ' ' || ch == '\n' || ch == '\t' || ch == '\r':
			i++
		case ch == '|':
			j := strings.IndexByte(s[i+1:], '|')
			if j < 0 {
				return cur
			}
			cur = append(cur, &sx{atom: s[i : i+j+2]})
			i += j + 2
		case ch == '"':
			j := strings.IndexByte(s[i+1:], '"')
			if j < 0 {
				return cur
			}
			cur = append(cur, &sx{atom: s[i : i+j+2]})
			i += j + 2
		default:
			j := i
			for j < len(s) && !strings.ContainsRune("() \n\t\r", rune(s[j])) {
				j++
			}
			cur = append(cur, &sx{atom: s[i:j]})
			i = j
		}
	}
	return cur
}

func (x *sx) String() string {
	if x.list == nil {
		return x.atom
	}
	var p []string
	for _, e := range x.list {
		p = append(p, e.String())
	}
	return "(" + strings.Join(p, " ") + ")"
}

// sxInt interprets a model value as an unsigned integer (bit-vectors) or signed integer (Int).
func sxInt(x *sx) (*big.Int, bool) {
	if x.list == nil {
		a := x.atom
		switch {
		case strings.HasPrefix(a, "#x"):
			v, ok := new(big.Int).SetString(a[2:], 16)
			return v, ok
		case strings.HasPrefix(a, "#b"):
			v, ok := new(big.Int).SetString(a[2:], 2)
			return v, ok
		default:
			v, ok := new(big.Int).SetString(a, 10)
			return v, ok
		}
	}
	if len(x.list) == 2 && x.list[0].atom == "-" {
		v, ok := sxInt(x.list[1])
		if ok {
			return new(big.Int).Neg(v), true
		}
	}
	if len(x.list) == 3 && x.list[0].atom == "_" && strings.HasPrefix(x.list[1].atom, "bv") {
		v, ok := new(big.Int).SetString(x.list[1].atom[2:], 10)
		return v, ok
	}
	return nil, false
}

// ---- model terms for inputs ----

type inputPlan struct {
	terms []modelTerm
	n     int
}

func (p *inputPlan) add(sort, term string) string {
	nm := fmt.Sprintf("rv_%d", p.n)
	p.n++
	p.terms = append(p.terms, modelTerm{nm, sort, term})
	return nm
}

// argBuilder turns a symbolic input value into Go source using model values.
type argBuilder struct {
	c       *Ctx
	w       *World
	pkg     *types.Package
	plan    *inputPlan
	vals    map[string]*sx
	imports map[string]string // path -> name
	pre     []string          // statements before the call
	nvar    int
	fail    string
	phase   int // 0: collect terms, 1: build source
	memo    map[string]string
}

func (b *argBuilder) qual(p *types.Package) string {
	if p == b.pkg {
		return ""
	}
	b.imports[p.Path()] = p.Name()
	return p.Name()
}

func (b *argBuilder) typeStr(t types.Type) string { return types.TypeString(t, b.qual) }

func (b *argBuilder) get(sort, term string) *sx {
	key := sort + "|" + term
	nm, ok := b.memo[key]
	if !ok {
		nm = b.plan.add(sort, term)
		b.memo[key] = nm
	}
	if b.phase == 0 {
		return nil
	}
	return b.vals[nm]
}

func (b *argBuilder) intLit(sort, term string, t types.Type) string {
	v := b.get(sort, term)
	if b.phase == 0 {
		return "0"
	}
	if v == nil {
		b.fail = "no model value for " + term
		return "0"
	}
	n, ok := sxInt(v)
	if !ok {
		b.fail = "unparsed model value " + v.String()
		return "0"
	}
	w, signed, _ := bvw(t)
	if signed && n.Bit(w-1) == 1 {
		n = new(big.Int).Sub(n, new(big.Int).Lsh(big.NewInt(1), uint(w)))
	}
	ts := b.typeStr(t)
	if bt, ok := t.(*types.Basic); ok && (bt.Kind() == types.Int || bt.Kind() == types.UntypedInt) {
		return n.String()
	}
	return fmt.Sprintf("%s(%s)", ts, n.String())
}

func (b *argBuilder) u64(sort, term string) (uint64, bool) {
	v := b.get(sort, term)
	if b.phase == 0 {
		return 0, true
	}
	if v == nil {
		return 0, false
	}
	n, ok := sxInt(v)
	if !ok {
		return 0, false
	}
	if n.Sign() < 0 {
		return 0, false
	}
	return n.Uint64(), n.IsUint64()
}

func (b *argBuilder) memU8(st *State) string {
	return b.c.memGet(st, "uint8", BV8)
}

func (b *argBuilder) bytesAt(inner string, off string, n uint64) []byte {
	if n > replayBytes {
		n = replayBytes
	}
	out := make([]byte, 0, n)
	lim := uint64(replayBytes)
	if b.phase == 1 {
		lim = n
	}
	for k := uint64(0); k < lim; k++ {
		v, ok := b.u64(BV8, fmt.Sprintf("(select %s (bvadd %s %s))", inner, off, i64(int64(k))))
		if !ok {
			v = 0
		}
		out = append(out, byte(v))
	}
	return out
}

func goBytes(bs []byte) string {
	var sb strings.Builder
	sb.WriteString("[]byte{")
	for i, x := range bs {
		if i > 0 {
			sb.WriteString(", ")
		}
		fmt.Fprintf(&sb, "0x%02x", x)
	}
	sb.WriteString("}")
	return sb.String()
}

// build returns a Go expression for value v of type t (entry state st).
func (b *argBuilder) build(v Val, t types.Type, st *State, depth int) string {
	if depth > 3 {
		b.fail = "value too deep"
		return "nil"
	}
	switch x := v.(type) {
	case Sc:
		switch {
		case isBV(x.S):
			return b.intLit(x.S, x.T, t)
		case x.S == "Bool":
			vv := b.get("Bool", x.T)
			if b.phase == 0 {
				return "false"
			}
			if vv == nil {
				return "false"
			}
			return vv.atom
		case x.S == "Int":
			// pointer
			pt, ok := t.Underlying().(*types.Pointer)
			if !ok {
				if b.phase == 1 {
					b.fail = "unsupported reference type " + t.String()
				}
				b.get("Int", x.T)
				return "nil"
			}
			ref, _ := b.u64("Int", x.T)
			if b.phase == 1 && ref == 0 {
				return "nil"
			}
			if types.TypeString(pt.Elem(), nil) == "bufio.Reader" {
				return b.readerExpr(x.T, st, true)
			}
			sty, ok := pt.Elem().Underlying().(*types.Struct)
			if !ok {
				obj := b.c.loadAt(st, objLoc{kind: 1, keyPfx: typeKey(pt.Elem()), ref: x.T}, pt.Elem(), "")
				inner := b.build(obj, pt.Elem(), st, depth+1)
				b.nvar++
				nm := fmt.Sprintf("pv%d", b.nvar)
				b.pre = append(b.pre, fmt.Sprintf("%s := %s", nm, inner))
				return "&" + nm
			}
			named, isNamed := pt.Elem().(*types.Named)
			if isNamed && named.Obj().Pkg() != b.pkg {
				// foreign struct: only exported fields can be set
			}
			var fields []string
			for i := 0; i < sty.NumFields(); i++ {
				f := sty.Field(i)
				if !f.Exported() && isNamed && named.Obj().Pkg() != b.pkg {
					continue
				}
				if _, isSig := f.Type().Underlying().(*types.Signature); isSig {
					continue
				}
				var fv Val
				ok := func() (ok bool) {
					defer func() {
						if r := recover(); r != nil {
							ok = false
						}
					}()
					fv = b.c.loadAt(st, objLoc{kind: 1, keyPfx: typeKey(pt.Elem()), ref: x.T}, f.Type(), "."+f.Name())
					return true
				}()
				if !ok {
					continue
				}
				if _, isArr := f.Type().Underlying().(*types.Array); isArr {
					continue // arrays inside objects: left zero (contents rarely decide a replay)
				}
				sub := &argBuilder{c: b.c, w: b.w, pkg: b.pkg, plan: b.plan, vals: b.vals, imports: b.imports, phase: b.phase, memo: b.memo, nvar: b.nvar + 100*(depth+1)}
				e := sub.build(fv, f.Type(), st, depth+1)
				if sub.fail != "" {
					continue
				}
				b.pre = append(b.pre, sub.pre...)
				fields = append(fields, f.Name()+": "+e)
			}
			return "&" + b.typeStr(pt.Elem()) + "{" + strings.Join(fields, ", ") + "}"
		case x.S == "F32" || x.S == "F64":
			b.get(x.S, x.T)
			return "0"
		}
	case SliceV:
		sl := t.Underlying().(*types.Slice)
		n, ok1 := b.u64(BV64, x.Len)
		cp, _ := b.u64(BV64, x.Cap)
		arr, _ := b.u64("Int", x.Arr)
		if w, _, isInt := bvw(sl.Elem()); isInt && w == 8 {
			inner := fmt.Sprintf("(select %s %s)", b.memU8(st), x.Arr)
			bs := b.bytesAt(inner, x.Off, n)
			if b.phase == 0 {
				return "nil"
			}
			if !ok1 {
				b.fail = "no length"
				return "nil"
			}
			if arr == 0 && n == 0 {
				return "[]byte(nil)"
			}
			if n > 1<<20 {
				b.fail = fmt.Sprintf("model slice too long (%d)", n)
				return "nil"
			}
			full := make([]byte, n)
			copy(full, bs)
			extra := ""
			if cp > n && cp-n < 4096 {
				extra = fmt.Sprintf(", make([]byte, %d)...", cp-n)
				b.nvar++
				nm := fmt.Sprintf("sl%d", b.nvar)
				b.pre = append(b.pre, fmt.Sprintf("%s := append(%s%s)[:%d]", nm, goBytes(full), extra, n))
				return b.conv(t, nm)
			}
			b.nvar++
			nm := fmt.Sprintf("sl%d", b.nvar)
			b.pre = append(b.pre, fmt.Sprintf("%s := %s", nm, goBytes(full)))
			return b.conv(t, fmt.Sprintf("%s[:%d:%d]", nm, n, n))
		}
		if b.phase == 0 {
			return "nil"
		}
		if n == 0 {
			return b.typeStr(t) + "(nil)"
		}
		b.fail = "slice of " + sl.Elem().String()
		return "nil"
	case StrV:
		n, ok1 := b.u64(BV64, x.Len)
		bs := b.bytesAt(x.Data, x.Off, n)
		if b.phase == 0 {
			return `""`
		}
		if !ok1 || n > 1<<20 {
			b.fail = "string length"
			return `""`
		}
		full := make([]byte, n)
		copy(full, bs)
		return b.conv(t, strconv.Quote(string(full)))
	case StructV:
		sty := t.Underlying().(*types.Struct)
		named, isNamed := t.(*types.Named)
		var fields []string
		for i := 0; i < sty.NumFields(); i++ {
			f := sty.Field(i)
			if !f.Exported() && isNamed && named.Obj().Pkg() != b.pkg {
				if b.phase == 0 {
					continue
				}
				continue
			}
			if _, isSig := f.Type().Underlying().(*types.Signature); isSig {
				continue
			}
			e := b.build(x.F[i], f.Type(), st, depth+1)
			fields = append(fields, f.Name()+": "+e)
		}
		return b.typeStr(t) + "{" + strings.Join(fields, ", ") + "}"
	case IfaceV:
		tag, _ := b.u64("Int", x.Tag)
		b.u64("Int", x.Ref)
		if b.phase == 1 && tag == 0 {
			return "nil"
		}
		ts := types.TypeString(t, nil)
		switch ts {
		case "io.Reader", "io.ReadSeeker", "io.ReaderAt", "io.ReadCloser":
			isBuf := false
			if b.phase == 1 {
				isBuf = int(tag) == b.w.typeTags["*bufio.Reader"]
			}
			if ts != "io.Reader" {
				isBuf = false
			}
			return b.readerExpr(x.Ref, st, isBuf)
		case "error":
			b.imports["errors"] = "errors"
			return `errors.New("verif-replay")`
		case "image.Image":
			b.fail = "image input"
			return "nil"
		}
		if b.phase == 1 {
			b.fail = "interface input " + ts
		}
		return "nil"
	case ArrV:
		at := t.Underlying().(*types.Array)
		if w, _, isInt := bvw(at.Elem()); isInt && at.Len() <= 64 {
			var es []string
			for k := int64(0); k < at.Len(); k++ {
				sc := sel(x.A, i64(k)).(Sc)
				_ = w
				es = append(es, b.intLit(sc.S, sc.T, at.Elem()))
			}
			return b.typeStr(t) + "{" + strings.Join(es, ", ") + "}"
		}
		return b.typeStr(t) + "{}"
	}
	if b.phase == 1 {
		b.fail = fmt.Sprintf("unsupported input %T of type %s", v, t)
	}
	return "nil"
}

func (b *argBuilder) conv(t types.Type, e string) string {
	if _, ok := t.(*types.Named); ok {
		return b.typeStr(t) + "(" + e + ")"
	}
	return e
}

// readerExpr builds a reader over the unread part of the ghost stream of ref.
func (b *argBuilder) readerExpr(ref string, st *State, bufio bool) string {
	c := b.c
	sid := fmt.Sprintf("(select %s %s)", c.heapGet(st, "ghost.sid", "Int"), ref)
	pos := fmt.Sprintf("(select %s %s)", c.heapGet(st, "ghost.pos", BV64), ref)
	lim := fmt.Sprintf("(select %s %s)", c.heapGet(st, "ghost.lim", BV64), ref)
	bsz := fmt.Sprintf("(select %s %s)", c.heapGet(st, "ghost.bsize", BV64), ref)
	p, _ := b.u64(BV64, pos)
	l, _ := b.u64(BV64, lim)
	sz, _ := b.u64(BV64, bsz)
	n := uint64(0)
	if l >= p {
		n = l - p
	}
	inner := fmt.Sprintf("(select %s %s)", b.memU8(st), sid)
	bs := b.bytesAt(inner, pos, n)
	if b.phase == 0 {
		return "nil"
	}
	if n > 1<<20 {
		n = 1 << 20
	}
	full := make([]byte, n)
	copy(full, bs)
	b.imports["bytes"] = "bytes"
	b.nvar++
	nm := fmt.Sprintf("rd%d", b.nvar)
	if bufio {
		b.imports["bufio"] = "bufio"
		if sz < 16 || sz > 1<<16 {
			sz = 4096
		}
		b.pre = append(b.pre, fmt.Sprintf("%s := bufio.NewReaderSize(bytes.NewReader(%s), %d)", nm, goBytes(full), sz))
	} else {
		b.pre = append(b.pre, fmt.Sprintf("%s := bytes.NewReader(%s)", nm, goBytes(full)))
	}
	return nm
}

// ---- contract clause -> Go ----

type goTrans struct {
	b       *argBuilder
	specs   map[string]bool
	fail    string
	results map[string]string
}

func (g *goTrans) expr(e ast.Expr) ast.Expr {
	switch x := e.(type) {
	case *ast.ParenExpr:
		return &ast.ParenExpr{X: g.expr(x.X)}
	case *ast.BinaryExpr:
		return &ast.BinaryExpr{X: g.expr(x.X), Op: x.Op, Y: g.expr(x.Y)}
	case *ast.UnaryExpr:
		return &ast.UnaryExpr{Op: x.Op, X: g.expr(x.X)}
	case *ast.IndexExpr:
		return &ast.IndexExpr{X: g.expr(x.X), Index: g.expr(x.Index)}
	case *ast.SliceExpr:
		n := *x
		n.X = g.expr(x.X)
		if x.Low != nil {
			n.Low = g.expr(x.Low)
		}
		if x.High != nil {
			n.High = g.expr(x.High)
		}
		return &n
	case *ast.SelectorExpr:
		if id, ok := x.X.(*ast.Ident); ok {
			// package qualifier?
			for path, p := range g.b.w.allPkgs {
				if p.Types != nil && p.Types.Name() == id.Name && (strings.HasPrefix(path, modulePath) || !strings.Contains(path, ".")) {
					if p.Types == g.b.pkg {
						return ast.NewIdent(x.Sel.Name)
					}
					if _, isLocal := g.results[id.Name]; !isLocal {
						if p.Types.Scope().Lookup(x.Sel.Name) != nil {
							g.b.imports[path] = p.Types.Name()
							return x
						}
					}
				}
			}
		}
		return &ast.SelectorExpr{X: g.expr(x.X), Sel: x.Sel}
	case *ast.Ident:
		if r, ok := g.results[x.Name]; ok {
			return ast.NewIdent(r)
		}
		return x
	case *ast.BasicLit:
		return x
	case *ast.CallExpr:
		if id, ok := x.Fun.(*ast.Ident); ok {
			switch id.Name {
			case "__imp":
				return &ast.ParenExpr{X: &ast.BinaryExpr{X: &ast.UnaryExpr{Op: token.NOT, X: &ast.ParenExpr{X: g.expr(x.Args[0])}}, Op: token.LOR, Y: &ast.ParenExpr{X: g.expr(x.Args[1])}}}
			case "__iff":
				return &ast.ParenExpr{X: &ast.BinaryExpr{X: &ast.ParenExpr{X: g.expr(x.Args[0])}, Op: token.EQL, Y: &ast.ParenExpr{X: g.expr(x.Args[1])}}}
			case "old":
				return g.expr(x.Args[0])
			case "ite":
				return &ast.CallExpr{Fun: ast.NewIdent("vrIte"), Args: []ast.Expr{g.expr(x.Args[0]), g.expr(x.Args[1]), g.expr(x.Args[2])}}
			case "hasAt":
				return &ast.CallExpr{Fun: ast.NewIdent("vrHasAt"), Args: []ast.Expr{g.expr(x.Args[0]), g.expr(x.Args[1]), x.Args[2]}}
			case "enumNames":
				as := []ast.Expr{&ast.CallExpr{Fun: ast.NewIdent("int64"), Args: []ast.Expr{g.expr(x.Args[0])}}, g.expr(x.Args[1])}
				as = append(as, x.Args[2:]...)
				return &ast.CallExpr{Fun: ast.NewIdent("vrEnumNames"), Args: as}
			case "__forall", "__exists", "pos", "lim", "sid", "fault", "peeked", "bsize", "data", "arr", "off", "ref", "is", "implements", "window", "windowAt", "fresh", "same", "athead", "atentry", "gfun", "popcount64":
				g.fail = "clause uses ghost construct " + id.Name
				return x
			}
			if _, ok := g.b.w.specFuncs[id.Name]; ok {
				g.specs[id.Name] = true
				var as []ast.Expr
				for _, a := range x.Args {
					as = append(as, g.expr(a))
				}
				return &ast.CallExpr{Fun: ast.NewIdent("spec_" + id.Name), Args: as}
			}
		}
		var as []ast.Expr
		for _, a := range x.Args {
			as = append(as, g.expr(a))
		}
		return &ast.CallExpr{Fun: g.expr(x.Fun), Args: as}
	case *ast.StarExpr:
		return &ast.StarExpr{X: g.expr(x.X)}
	}
	g.fail = fmt.Sprintf("untranslatable %T", e)
	return e
}

func printExpr(e ast.Expr) string {
	var buf bytes.Buffer
	printer.Fprint(&buf, token.NewFileSet(), e)
	return buf.String()
}

// specFuncSource emits Go definitions for the spec functions used (parameter types recorded at symbolic evaluation).
func (g *goTrans) specFuncSource(c *Ctx) string {
	var sb strings.Builder
	done := map[string]bool{}
	for {
		var todo []string
		for n := range g.specs {
			if !done[n] {
				todo = append(todo, n)
			}
		}
		if len(todo) == 0 {
			break
		}
		sort.Strings(todo)
		for _, n := range todo {
			done[n] = true
			sf := g.b.w.specFuncs[n]
			sig, ok := c.specSigs[n]
			if !ok {
				g.fail = "no recorded signature for spec " + n
				return ""
			}
			var ps []string
			for i, p := range sf.Params {
				ps = append(ps, p+" "+g.typeOrInt(sig.params[i]))
			}
			sub := &goTrans{b: g.b, specs: g.specs, results: map[string]string{}}
			body := printExpr(sub.expr(sf.Body))
			if sub.fail != "" {
				g.fail = sub.fail
			}
			fmt.Fprintf(&sb, "func spec_%s(%s) %s { return %s }\n", n, strings.Join(ps, ", "), g.typeOrInt(sig.result), body)
		}
	}
	return sb.String()
}

func (g *goTrans) typeOrInt(t types.Type) string {
	if t == nil {
		return "int"
	}
	return g.b.typeStr(t)
}

// ---- the replay itself ----

func writeReplay(w *World, dir, prop string, fr *FnResult, o *OblResult, skip bool) replayOut {
	os.MkdirAll(dir, 0o755)
	base := filepath.Join(dir, sanitizeSym(o.Name))
	fp := base + ".json"
	rec := map[string]interface{}{
		"property": prop, "obligation": o.Name, "kind": o.Kind, "guards": o.Expr,
		"at":     map[string]interface{}{"file": o.Pos.Filename, "line": o.Pos.Line},
		"solver": o.Solver, "solver_status": o.Status, "solver_output": o.Output,
		"status": "no-failing-input-found",
	}
	if o.Query != "" {
		os.WriteFile(base+".smt2", []byte(o.Query), 0o644)
		rec["query_file"] = base + ".smt2"
	}
	out := replayOut{file: fp}
	finish := func() replayOut {
		js, _ := json.MarshalIndent(rec, "", " ")
		os.WriteFile(fp, js, 0o644)
		return out
	}
	if skip || o.Status != "sat" || fr == nil || fr.ctx == nil || fr.ctx.root == nil {
		if o.Status != "sat" {
			rec["reason"] = "solver returned no model (" + o.Status + ")"
		}
		return finish()
	}
	src, why, expect := buildReplay(w, fr, o)
	if src == "" {
		rec["reason"] = "replay harness could not be generated: " + why
		return finish()
	}
	testFile := base + "_test.go.txt"
	os.WriteFile(testFile, []byte(src), 0o644)
	rec["replay_test"] = testFile
	rec["expected_observation"] = expect
	fn := fr.ctx.root
	pkgDir := filepath.Dir(w.fset.Position(fn.Pos()).Filename)
	ov := base + "_overlay.json"
	js, _ := json.Marshal(map[string]interface{}{"Replace": map[string]string{filepath.Join(pkgDir, "zz_verif_replay_test.go"): testFile}})
	os.WriteFile(ov, js, 0o644)
	rec["replay_cmd"] = fmt.Sprintf("cd %s && go test -overlay %s -vet=off -count=1 -timeout 60s -v -run TestVerifReplay .", pkgDir, ov)
	ctx, cancel := context.WithTimeout(context.Background(), 120*time.Second)
	defer cancel()
	cmd := exec.CommandContext(ctx, "bash", "-c", fmt.Sprintf("ulimit -v 8000000; cd %s && go test -overlay %s -vet=off -count=1 -timeout 20s -v -run TestVerifReplay . 2>&1 | tail -40", pkgDir, ov))
	cmd.Env = append(os.Environ(), "GOFLAGS=-mod=mod", "GOPROXY=off", "GOSUMDB=off", "GOTOOLCHAIN=local")
	outb, _ := cmd.CombinedOutput()
	so := string(outb)
	rec["replay_output"] = so
	switch {
	case strings.Contains(so, "VERIF-REPLAY: REPRODUCED"):
		rec["status"] = "replayed"
		out.replayed = true
	case strings.Contains(so, "panic: test timed out") && expect == "hang":
		rec["status"] = "replayed"
		rec["observed"] = "hang (20 s watchdog)"
		out.replayed = true
	case strings.Contains(so, "VERIF-REPLAY: NOT-REPRODUCED"):
		rec["status"] = "undecided-by-replay"
		rec["reason"] = "the model's inputs do not fail on the real code (state not fully reconstructed, or the proof no longer goes through for another reason)"
	default:
		rec["status"] = "undecided-by-replay"
		rec["reason"] = "replay harness did not run to a verdict"
	}
	return finish()
}

// buildReplay generates the in-package test source.
func buildReplay(w *World, fr *FnResult, o *OblResult) (src, why, expect string) {
	defer func() {
		if r := recover(); r != nil {
			src, why = "", fmt.Sprintf("builder panic: %v", r)
		}
	}()
	c := fr.ctx
	fn := c.root
	if fn.Pkg == nil {
		return "", "no package", ""
	}
	if len(c.inlineChain) > 0 {
		c.inlineChain = nil
	}
	plan := &inputPlan{}
	b := &argBuilder{c: c, w: w, pkg: fn.Pkg.Pkg, plan: plan, imports: map[string]string{}, memo: map[string]string{}}
	st := c.entryState.clone()
	// phase 0: collect terms
	nd := len(c.decls)
	for i, p := range fn.Params {
		b.build(c.entryArgs[i], p.Type(), st, 0)
	}
	// extra declarations created while collecting (heap components) must be visible to the model query
	extraDecls := append([]string{}, c.decls[nd:]...)
	c.decls = c.decls[:nd]
	// model query
	var sb strings.Builder
	sb.WriteString("(set-option :produce-models true)\n" + prelude)
	seen := map[string]bool{}
	for _, d := range c.decls[:o.NDecl] {
		sb.WriteString(d + "\n")
		seen[d] = true
	}
	for _, d := range c.decls[o.NDecl:] {
		if isDefDecl(d) && !seen[d] {
			sb.WriteString(d + "\n")
			seen[d] = true
		}
	}
	for _, d := range extraDecls {
		if !seen[d] {
			sb.WriteString(d + "\n")
			seen[d] = true
		}
	}
	for _, a := range c.asms[:o.NAsm] {
		sb.WriteString("(assert " + a + ")\n")
	}
	sb.WriteString("(assert " + o.Reach + ")\n(assert (not " + o.Cond + "))\n")
	var names []string
	for _, t := range plan.terms {
		fmt.Fprintf(&sb, "(define-fun %s () %s %s)\n", t.name, t.sort, t.term)
		names = append(names, t.name)
	}
	// prefer small, executable inputs: first try with every input length bounded, then unbounded
	var small []string
	for _, in := range c.inputs {
		mapLeaves(in.Val, func(l Sc) Sc { return l })
		collectLens(in.Val, &small)
	}
	tail := "(check-sat)\n"
	if len(names) > 0 {
		tail += "(get-value (" + strings.Join(names, " ") + "))\n"
	}
	sv := newSolver(20, 1)
	q1 := sb.String()
	for _, l := range small {
		q1 += fmt.Sprintf("(assert (bvsle %s #x0000000000000080))\n", l)
	}
	stt, outp, _ := sv.run("z3-new", q1+tail, 20)
	if stt != "sat" {
		stt, outp, _ = sv.run("z3-new", sb.String()+tail, 20)
	}
	if stt != "sat" {
		return "", "model query returned " + stt + ": " + firstLines(outp, 2), ""
	}
	vals := map[string]*sx{}
	rest := outp[strings.Index(outp, "\n")+1:]
	for _, top := range parseSx(rest) {
		for _, pr := range top.list {
			if len(pr.list) == 2 {
				vals[pr.list[0].atom] = pr.list[1]
			}
		}
	}
	// phase 1: build
	b.phase = 1
	b.vals = vals
	b.pre = nil
	b.nvar = 0
	var args []string
	for i, p := range fn.Params {
		e := b.build(c.entryArgs[i], p.Type(), st, 0)
		if b.fail != "" {
			return "", "parameter " + p.Name() + ": " + b.fail, ""
		}
		args = append(args, e)
	}
	// call expression
	sig := fn.Signature
	var call string
	pi := 0
	if sig.Recv() != nil {
		b.nvar++
		rv := fmt.Sprintf("recv%d", b.nvar)
		b.pre = append(b.pre, fmt.Sprintf("%s := %s", rv, args[0]))
		call = fmt.Sprintf("%s.%s(", rv, fn.Name())
		pi = 1
	} else {
		call = fn.Name() + "("
	}
	var pnames []string
	for i := pi; i < len(args); i++ {
		pn := fn.Params[i].Name()
		if pn == "" || pn == "_" {
			pn = fmt.Sprintf("a%d", i)
		}
		pn = "in_" + pn
		b.pre = append(b.pre, fmt.Sprintf("%s := %s", pn, args[i]))
		b.pre = append(b.pre, "_ = "+pn)
		pnames = append(pnames, pn)
	}
	if sig.Variadic() && len(pnames) > 0 {
		pnames[len(pnames)-1] += "..."
	}
	call += strings.Join(pnames, ", ") + ")"
	var rnames []string
	resMap := map[string]string{}
	for i := 0; i < sig.Results().Len(); i++ {
		rn := fmt.Sprintf("out%d", i)
		rnames = append(rnames, rn)
		nm := sig.Results().At(i).Name()
		if nm == "" || nm == "_" {
			nm = fmt.Sprintf("r%d", i)
		}
		resMap[nm] = rn
		if sig.Results().Len() == 1 {
			resMap["result"] = rn
		}
	}
	for i := pi; i < len(fn.Params); i++ {
		resMap[fn.Params[i].Name()] = "in_" + fn.Params[i].Name()
	}
	if sig.Recv() != nil {
		resMap[fn.Params[0].Name()] = fmt.Sprintf("recv%d", b.nvar)
	}
	check := ""
	specSrc := ""
	expect = "panic"
	switch {
	case o.Kind == "ensures" && c.contract != nil:
		expect = "postcondition false"
		ks := strings.SplitN(strings.SplitN(o.Name, "#ensures:", 2)[1], "@", 2)[0]
		if i := strings.Index(ks, "."); i >= 0 {
			ks = ks[:i]
		}
		k, _ := strconv.Atoi(ks)
		if k >= len(c.contract.Ensures) {
			return "", "ensures ordinal", ""
		}
		g := &goTrans{b: b, specs: map[string]bool{}, results: resMap}
		ge := g.expr(c.contract.Ensures[k].Expr)
		if g.fail != "" {
			return "", g.fail, ""
		}
		specSrc = g.specFuncSource(c)
		if g.fail != "" {
			return "", g.fail, ""
		}
		check = "holds = " + printExpr(ge)
	case o.Kind == "variant":
		expect = "hang"
	case safetyKinds[o.Kind], o.Kind == "requires":
		expect = "panic"
	default:
		return "", "no run-time observation defined for obligation kind " + o.Kind, ""
	}
	var src2 strings.Builder
	fmt.Fprintf(&src2, "// Generated by vcgo: replay of %s\npackage %s\n\nimport (\n\t\"fmt\"\n\t\"testing\"\n", o.Name, fn.Pkg.Pkg.Name())
	var ips []string
	for p := range b.imports {
		ips = append(ips, p)
	}
	sort.Strings(ips)
	for _, p := range ips {
		if p == "fmt" || p == "testing" {
			continue
		}
		fmt.Fprintf(&src2, "\t%s %q\n", b.imports[p], p)
	}
	src2.WriteString(")\n\n")
	src2.WriteString("func vrIte[T any](c bool, a, b T) T {\n\tif c {\n\t\treturn a\n\t}\n\treturn b\n}\n\nfunc vrHasAt(b []byte, o int, s string) bool {\n\tfor i := 0; i < len(s); i++ {\n\t\tif o+i >= len(b) || b[o+i] != s[i] {\n\t\t\treturn false\n\t\t}\n\t}\n\treturn true\n}\n\nfunc vrEnumNames(v int64, r string, fb string, kv ...interface{}) bool {\n\tfor i := 0; i+1 < len(kv); i += 2 {\n\t\tif int64(kv[i].(int)) == v {\n\t\t\treturn r == kv[i+1].(string)\n\t\t}\n\t}\n\treturn r == fb\n}\n\nvar _ = vrIte[int]\nvar _ = vrHasAt\nvar _ = vrEnumNames\n\n")
	src2.WriteString(specSrc)
	src2.WriteString("\nfunc TestVerifReplay(t *testing.T) {\n")
	for _, s := range b.pre {
		src2.WriteString("\t" + s + "\n")
	}
	src2.WriteString("\tvar panicked interface{}\n\tholds := true\n\t_ = holds\n\tfunc() {\n\t\tdefer func() { panicked = recover() }()\n")
	if len(rnames) > 0 {
		fmt.Fprintf(&src2, "\t\t%s := %s\n", strings.Join(rnames, ", "), call)
		for _, r := range rnames {
			fmt.Fprintf(&src2, "\t\t_ = %s\n", r)
		}
	} else {
		fmt.Fprintf(&src2, "\t\t%s\n", call)
	}
	if check != "" {
		src2.WriteString("\t\t" + check + "\n")
		if len(rnames) > 0 {
			fmt.Fprintf(&src2, "\t\tfmt.Printf(\"VERIF-REPLAY: results %%v\\n\", []interface{}{%s})\n", strings.Join(rnames, ", "))
		}
	}
	src2.WriteString("\t}()\n")
	switch expect {
	case "panic":
		src2.WriteString("\tif panicked != nil {\n\t\tfmt.Printf(\"VERIF-REPLAY: REPRODUCED panic: %v\\n\", panicked)\n\t} else {\n\t\tfmt.Println(\"VERIF-REPLAY: NOT-REPRODUCED (no panic)\")\n\t}\n")
	case "postcondition false":
		src2.WriteString("\tif panicked != nil {\n\t\tfmt.Printf(\"VERIF-REPLAY: NOT-REPRODUCED (panicked instead: %v)\\n\", panicked)\n\t} else if !holds {\n\t\tfmt.Println(\"VERIF-REPLAY: REPRODUCED postcondition is false on the real code\")\n\t} else {\n\t\tfmt.Println(\"VERIF-REPLAY: NOT-REPRODUCED (postcondition holds)\")\n\t}\n")
	case "hang":
		src2.WriteString("\t_ = holds\n\tfmt.Printf(\"VERIF-REPLAY: NOT-REPRODUCED (returned; panicked=%v)\\n\", panicked)\n")
	}
	src2.WriteString("}\n")
	return src2.String(), "", expect
}

func collectLens(v Val, out *[]string) {
	switch x := v.(type) {
	case SliceV:
		*out = append(*out, x.Len, x.Cap)
	case StrV:
		*out = append(*out, x.Len)
	case StructV:
		for _, f := range x.F {
			collectLens(f, out)
		}
	case TupleV:
		for _, f := range x.V {
			collectLens(f, out)
		}
	}
}

var _ = ssa.NaiveForm

var defDeclRe = regexp.MustCompile(`^\(declare-const [HM]\d+_`)

func isDefDecl(d string) bool { return defDeclRe.MatchString(d) }
