// effects.go - syntactic write effects of a region of SSA (used to havoc exactly what a loop may change).
//
// The effect of a loop body is over-approximated at COMPONENT granularity: a store to p.f havocs the whole component
// (struct type, field f) for every object; a store through a slice/array element havocs the element memory of that
// element type; a call contributes its contract's `modifies` clause (resolved through go/types, no evaluation), a
// transparent (inlinable) callee contributes the effects of its body, and anything unknown havocs everything.
// Components never written in the loop (ghost stream identity/length, unrelated struct fields, constant tables) keep
// their values across the loop head, so invariants only have to talk about what the loop really changes.
package main

import (
	"go/ast"
	"go/token"
	"go/types"
	"sort"
	"strings"

	"golang.org/x/tools/go/ssa"
)

type effects struct {
	mat     []func(c *Ctx, s *State) // materialise the named components in a state (so that havoc and frame see them)
	all     bool
	heap    map[string]bool // heap key prefixes
	mem     map[string]bool // element type keys
	streams bool            // ghost stream position/peeked/fault of some reader
	foreign string          // everything not owned by this package
	why     string
}

func newEffects() *effects { return &effects{heap: map[string]bool{}, mem: map[string]bool{}} }

func (e *effects) addMem(elem types.Type) {
	key := typeKey(elem)
	e.mem[key] = true
	if srt, ok := scalarSort(elem); ok {
		e.mat = append(e.mat, func(c *Ctx, s *State) { c.memGet(s, key, srt) })
	} else if _, isStruct := elem.Underlying().(*types.Struct); isStruct {
		e.mat = append(e.mat, func(c *Ctx, s *State) {
			c.leafKeys(key, elem, func(k, srt string) { c.memGet(s, k, srt) }, func(string, *types.Array) {})
		})
	}
}

func (e *effects) setAll(why string) {
	if !e.all {
		e.all = true
		e.why = why
	}
}

func (e *effects) String() string {
	if e.all {
		return "everything (" + e.why + ")"
	}
	var ps []string
	for k := range e.heap {
		ps = append(ps, k)
	}
	for k := range e.mem {
		ps = append(ps, "mem:"+k)
	}
	if e.streams {
		ps = append(ps, "streams")
	}
	if e.foreign != "" {
		ps = append(ps, "foreign("+e.foreign+")")
	}
	sort.Strings(ps)
	return strings.Join(ps, ",")
}

// addrEffect records the effect of a store through address value a.
func (c *Ctx) addrEffect(e *effects, a ssa.Value) {
	var path []string
	v := a
	for depth := 0; depth < 12; depth++ {
		switch x := v.(type) {
		case *ssa.Alloc:
			if !x.Heap {
				return // plain local: handled by the locals havoc
			}
			et := x.Type().(*types.Pointer).Elem()
			c.typeEffect(e, et, path)
			return
		case *ssa.FieldAddr:
			st := x.X.Type().Underlying().(*types.Pointer).Elem().Underlying().(*types.Struct)
			path = append([]string{st.Field(x.Field).Name()}, path...)
			// does the base continue an address chain (embedded struct / local) or is it a pointer value?
			switch b := x.X.(type) {
			case *ssa.FieldAddr, *ssa.IndexAddr:
				v = b
				continue
			case *ssa.Alloc:
				if !b.Heap {
					return
				}
			}
			c.typeEffect(e, x.X.Type().Underlying().(*types.Pointer).Elem(), path)
			return
		case *ssa.IndexAddr:
			if al, ok := x.X.(*ssa.Alloc); ok && al.Comment == "varargs" {
				return // the array of a variadic call's arguments: private to that call
			}
			switch t := x.X.Type().Underlying().(type) {
			case *types.Slice:
				e.addMem(t.Elem())
				return
			case *types.Pointer:
				at, ok := t.Elem().Underlying().(*types.Array)
				if !ok {
					e.setAll("index of non-array pointer")
					return
				}
				if al, ok := x.X.(*ssa.Alloc); ok && !al.Heap && !sliced(al) {
					return // local array
				}
				e.addMem(at.Elem())
				return
			}
			e.setAll("index address")
			return
		case *ssa.Global:
			e.heap["G:"+x.String()] = true
			return
		default:
			// *p = v for a pointer value p
			if pt, ok := v.Type().Underlying().(*types.Pointer); ok {
				c.typeEffect(e, pt.Elem(), path)
				return
			}
			e.setAll("store through " + v.Name())
			return
		}
	}
	e.setAll("deep address chain")
}

// typeEffect: a write to (objects of type t).path
func (c *Ctx) typeEffect(e *effects, t types.Type, path []string) {
	if at, ok := t.Underlying().(*types.Array); ok && len(path) == 0 {
		e.addMem(at.Elem())
		return
	}
	key := typeKey(t)
	if len(path) > 0 {
		key += "." + strings.Join(path, ".")
	}
	e.heap[key] = true
	{
		// leaves below the written location
		ft0 := t
		okp := true
		for _, p := range path {
			st, ok := ft0.Underlying().(*types.Struct)
			if !ok {
				okp = false
				break
			}
			found := false
			for i := 0; i < st.NumFields(); i++ {
				if st.Field(i).Name() == p {
					ft0 = st.Field(i).Type()
					found = true
					break
				}
			}
			if !found {
				okp = false
				break
			}
		}
		if okp {
			k0, t0 := key, ft0
			e.mat = append(e.mat, func(c *Ctx, s *State) {
				c.leafKeys(k0, t0, func(k, srt string) { c.heapGet(s, k, srt) }, func(string, *types.Array) {})
			})
		}
	}
	// array-typed fields below the written location live in element memory
	ft := t
	for _, p := range path {
		st, ok := ft.Underlying().(*types.Struct)
		if !ok {
			break
		}
		for i := 0; i < st.NumFields(); i++ {
			if st.Field(i).Name() == p {
				ft = st.Field(i).Type()
				break
			}
		}
	}
	c.arrayElemsBelow(e, ft, 0)
}

func (c *Ctx) arrayElemsBelow(e *effects, t types.Type, depth int) {
	if depth > 4 {
		return
	}
	switch u := t.Underlying().(type) {
	case *types.Array:
		e.addMem(u.Elem())
	case *types.Struct:
		for i := 0; i < u.NumFields(); i++ {
			c.arrayElemsBelow(e, u.Field(i).Type(), depth+1)
		}
	}
}

// contractEffect adds the modifies clauses of a contract, resolved by types only.
func (c *Ctx) contractEffect(e *effects, ct *Contract, names calleeNames) {
	if ct.Pure {
		return
	}
	if !ct.HasMod {
		e.setAll("callee " + ct.Name + " has no modifies clause")
		return
	}
	typeOf := func(x ast.Expr) types.Type { return c.staticType(x, names) }
	for _, m := range ct.Modifies {
		if m.Text == "*" {
			e.setAll("callee " + ct.Name + " modifies *")
			return
		}
		if m.Text == "streams" {
			e.streams = true
			e.heap["ghost.sid"] = true
			e.heap["ghost.lim"] = true
			continue
		}
		if strings.HasPrefix(m.Text, "streamid(") {
			e.heap["ghost.sid"] = true
			e.heap["ghost.lim"] = true
			continue
		}
		if m.Text == "foreign" || (strings.HasPrefix(m.Text, "foreign(") && strings.HasSuffix(m.Text, ")")) {
			p := ""
			if m.Text != "foreign" {
				p = strings.TrimSpace(m.Text[8 : len(m.Text)-1])
			} else if names.pkg != nil {
				p = relPkg(names.pkg.Path())
			} else {
				e.setAll("modifies foreign without package")
				return
			}
			if e.foreign != "" && e.foreign != p {
				e.setAll("foreign of two packages")
				return
			}
			e.foreign = p
			e.streams = true
			continue
		}
		switch x := m.Expr.(type) {
		case *ast.CallExpr:
			id, _ := x.Fun.(*ast.Ident)
			if id != nil && id.Name == "stream" {
				e.streams = true
				continue
			}
			if id != nil && id.Name == "memall" {
				if t := typeOf(x.Args[0]); t != nil {
					if sl, ok := t.Underlying().(*types.Slice); ok {
						e.addMem(sl.Elem())
						continue
					}
				}
			}
			if id != nil && id.Name == "mem" {
				if t := typeOf(x.Args[0]); t != nil {
					if sl, ok := t.Underlying().(*types.Slice); ok {
						e.addMem(sl.Elem())
						continue
					}
				}
			}
			e.setAll("modifies " + m.Text)
		case *ast.SelectorExpr:
			// Type.field | expr.field | pkg.Var
			if bt := c.staticTypeName(x.X, names); bt != nil {
				e.heap[typeKey(bt)+"."+x.Sel.Name] = true
				if gf, ok := c.w.ghostFields[typeKey(bt)]; ok {
					if _, ok := gf[x.Sel.Name]; ok {
						e.heap["ghost."+typeKey(bt)+"."+x.Sel.Name] = true
					}
				}
				c.typeEffect(e, bt, []string{x.Sel.Name})
				continue
			}
			if g := c.staticGlobal(x, names); g != "" {
				e.heap["G:"+g] = true
				continue
			}
			t := typeOf(x.X)
			if t == nil {
				e.setAll("modifies " + m.Text)
				continue
			}
			if _, isPtr := t.Underlying().(*types.Pointer); !isPtr {
				// p.a.b: the path below the pointer's element type
				path := []string{x.Sel.Name}
				cur := x.X
				var bt types.Type
				for {
					se, ok := cur.(*ast.SelectorExpr)
					if !ok {
						break
					}
					path = append([]string{se.Sel.Name}, path...)
					it := typeOf(se.X)
					if it == nil {
						break
					}
					if pt, ok := it.Underlying().(*types.Pointer); ok {
						bt = pt.Elem()
						break
					}
					cur = se.X
				}
				if bt == nil {
					e.setAll("modifies " + m.Text)
					continue
				}
				c.typeEffect(e, bt, path)
				continue
			}
			if pt, ok := t.Underlying().(*types.Pointer); ok {
				t = pt.Elem()
			}
			if gf, ok := c.w.ghostFields[typeKey(t)]; ok {
				if _, ok := gf[x.Sel.Name]; ok {
					e.heap["ghost."+typeKey(t)+"."+x.Sel.Name] = true
					continue
				}
			}
			c.typeEffect(e, t, []string{x.Sel.Name})
		case *ast.StarExpr:
			t := typeOf(x.X)
			if t == nil {
				e.setAll("modifies " + m.Text)
				continue
			}
			if pt, ok := t.Underlying().(*types.Pointer); ok {
				c.typeEffect(e, pt.Elem(), nil)
				c.arrayElemsBelow(e, pt.Elem(), 0)
				continue
			}
			e.setAll("modifies " + m.Text)
		default:
			e.setAll("modifies " + m.Text)
		}
	}
}

// staticType computes the type of a simple contract expression (identifiers = callee parameters, field selections).
func (c *Ctx) staticType(x ast.Expr, names calleeNames) types.Type {
	switch e := x.(type) {
	case *ast.Ident:
		for i, p := range names.params {
			if p == e.Name {
				return names.ptypes[i]
			}
		}
		for i, p := range names.results {
			if p == e.Name {
				return names.rtypes[i]
			}
		}
	case *ast.ParenExpr:
		return c.staticType(e.X, names)
	case *ast.CallExpr:
		if id, ok := e.Fun.(*ast.Ident); ok && id.Name == "as" && len(e.Args) == 2 {
			if bl, ok := e.Args[1].(*ast.BasicLit); ok {
				tn := strings.Trim(bl.Value, "\"`")
				env := &CEnv{c: c, pkg: names.pkg}
				var t types.Type
				func() {
					defer func() { recover() }()
					t = c.resolveTypeName(env, tn)
				}()
				return t
			}
		}
	case *ast.StarExpr:
		if t := c.staticType(e.X, names); t != nil {
			if pt, ok := t.Underlying().(*types.Pointer); ok {
				return pt.Elem()
			}
		}
	case *ast.SelectorExpr:
		t := c.staticType(e.X, names)
		if t == nil {
			return nil
		}
		if pt, ok := t.Underlying().(*types.Pointer); ok {
			t = pt.Elem()
		}
		if st, ok := t.Underlying().(*types.Struct); ok {
			for i := 0; i < st.NumFields(); i++ {
				if st.Field(i).Name() == e.Sel.Name {
					return st.Field(i).Type()
				}
			}
		}
	}
	return nil
}

// staticTypeName resolves `T` or `pkg.T` to a named type (for `modifies T.field`).
func (c *Ctx) staticTypeName(x ast.Expr, names calleeNames) types.Type {
	switch e := x.(type) {
	case *ast.Ident:
		for _, p := range names.params {
			if p == e.Name {
				return nil
			}
		}
		if names.pkg != nil {
			if tn, ok := names.pkg.Scope().Lookup(e.Name).(*types.TypeName); ok {
				return tn.Type()
			}
		}
	case *ast.SelectorExpr:
		if id, ok := e.X.(*ast.Ident); ok && names.pkg != nil {
			for _, imp := range names.pkg.Imports() {
				if imp.Name() == id.Name {
					if tn, ok := imp.Scope().Lookup(e.Sel.Name).(*types.TypeName); ok {
						return tn.Type()
					}
				}
			}
		}
	}
	return nil
}

func (c *Ctx) staticGlobal(x *ast.SelectorExpr, names calleeNames) string {
	id, ok := x.X.(*ast.Ident)
	if !ok || names.pkg == nil {
		return ""
	}
	for _, imp := range names.pkg.Imports() {
		if imp.Name() == id.Name {
			if v, ok := imp.Scope().Lookup(x.Sel.Name).(*types.Var); ok {
				if pk := c.w.prog.Package(v.Pkg()); pk != nil {
					if g, ok := pk.Members[v.Name()].(*ssa.Global); ok {
						return g.String()
					}
				}
			}
		}
	}
	return ""
}

// regionEffects accumulates the effects of the given blocks of fn.
func (c *Ctx) regionEffects(e *effects, fn *ssa.Function, blocks map[int]bool, depth int) {
	for _, b := range fn.Blocks {
		if blocks != nil && !blocks[b.Index] {
			continue
		}
		for _, ins := range b.Instrs {
			if e.all {
				return
			}
			switch x := ins.(type) {
			case *ssa.Store:
				c.addrEffect(e, x.Addr)
			case *ssa.MapUpdate:
				// maps are not modelled (lookups are unconstrained unless the map is effectively constant)
			case *ssa.Go, *ssa.Send:
				e.setAll("go/send")
			case *ssa.Defer:
				c.callEffect(e, fn, &x.Call, depth)
			case *ssa.Call:
				c.callEffect(e, fn, &x.Call, depth)
			case *ssa.UnOp:
				if x.Op == token.ARROW {
					e.setAll("channel receive")
				}
			}
		}
	}
}

func (c *Ctx) callEffect(e *effects, fn *ssa.Function, com *ssa.CallCommon, depth int) {
	if b, ok := com.Value.(*ssa.Builtin); ok {
		switch b.Name() {
		case "copy", "append":
			if sl, ok := com.Args[0].Type().Underlying().(*types.Slice); ok {
				e.addMem(sl.Elem())
			} else {
				e.setAll("builtin " + b.Name())
			}
		}
		return
	}
	if com.IsInvoke() {
		recvT := com.Value.Type()
		key := types.TypeString(recvT, func(p *types.Package) string { return p.Path() }) + "." + com.Method.Name()
		key = strings.TrimPrefix(key, modulePath+"/")
		if alias, ok := c.w.ifaceAlias[key]; ok {
			key = alias
		}
		if ct := c.w.contracts[key]; ct != nil {
			c.contractEffect(e, ct, c.namesFor(ct, nil, com))
			return
		}
		if n, ok := recvT.(*types.Named); ok && n.Obj().Pkg() != nil && c.isPurePkg(n.Obj().Pkg().Path()) {
			return
		}
		e.setAll("invoke " + key)
		return
	}
	callee := com.StaticCallee()
	if callee == nil {
		if tgt, _, ok := c.constFuncGlobal(com.Value); ok {
			callee = tgt
		}
	}
	if callee == nil {
		if key := callbackKey(com.Value); key != "" {
			if ct := c.w.callbackContract(key); ct != nil {
				c.contractEffect(e, ct, c.namesFor(ct, nil, com))
				return
			}
		}
		e.setAll("dynamic call")
		return
	}
	if _, isClosure := com.Value.(*ssa.MakeClosure); isClosure {
		e.setAll("closure call")
		return
	}
	dn := depName(callee)
	if dn == "(*sync.Pool).Get" || dn == "(*sync.Pool).Put" {
		return
	}
	if ct := c.contractFor(callee); ct != nil {
		c.contractEffect(e, ct, c.namesFor(ct, callee, nil))
		return
	}
	path := pkgPathOf(callee)
	if (inModule(callee) || transparentPkgs[path]) && len(callee.Blocks) > 0 && noLoops(callee) && len(callee.Blocks) <= maxInlineBlocks && depth < maxInlineDepth && len(callee.FreeVars) == 0 {
		c.regionEffects(e, callee, nil, depth+1)
		return
	}
	if c.isPurePkg(path) {
		return
	}
	e.setAll("call of " + fnName(callee) + " (no contract)")
}

// havocEffects forgets exactly the components named by e.
func (c *Ctx) havocEffects(s *State, e *effects, reach string) {
	if e.all {
		c.havocAll(s, reach)
		return
	}
	for _, m := range e.mat {
		m(c, s)
	}
	c.touchAll(s)
	if e.foreign != "" {
		c.havocForeign(s, e.foreign, reach)
	}
	g := 0
	gen := func() int {
		if g == 0 {
			g = newGen()
		}
		return g
	}
	for p := range e.heap {
		for k := range s.heap {
			if keyHasPrefix(k, p) {
				s.heap[k] = c.freshHeap(s.hsort[k])
			}
		}
		if s.pgen == nil {
			s.pgen = map[string]int{}
		}
		s.pgen[p] = gen()
	}
	if e.streams {
		for _, gk := range streamGhosts {
			key := "ghost." + gk.name
			c.heapGet(s, key, gk.sort)
			s.heap[key] = c.freshHeap(s.hsort[key])
		}
	}
	oldU8 := s.mem["uint8"]
	for p := range e.mem {
		for k := range s.mem {
			if keyHasPrefix(k, p) {
				s.mem[k] = c.fresh("M", s.hsort["M:"+k])
			}
		}
		if s.pgen == nil {
			s.pgen = map[string]int{}
		}
		s.pgen["M:"+p] = gen()
	}
	if oldU8 != "" && s.mem["uint8"] != oldU8 {
		for _, v := range s.views {
			c.assume("true", "(= (select "+s.mem["uint8"]+" "+v+") (select "+oldU8+" "+v+"))")
		}
	}
	c.bumpTop()
}

// loopAllocKeys: type keys of objects allocated inside the given blocks (other than variadic argument arrays).
func loopAllocKeys(fn *ssa.Function, blocks map[int]bool) map[string]bool {
	out := map[string]bool{}
	for _, b := range fn.Blocks {
		if blocks != nil && !blocks[b.Index] {
			continue
		}
		for _, ins := range b.Instrs {
			switch x := ins.(type) {
			case *ssa.Alloc:
				if !x.Heap || x.Comment == "varargs" {
					continue
				}
				et := x.Type().(*types.Pointer).Elem()
				if at, ok := et.Underlying().(*types.Array); ok {
					out[typeKey(at.Elem())] = true
				} else {
					out[typeKey(et)] = true
				}
			case *ssa.MakeSlice:
				out[typeKey(x.Type().Underlying().(*types.Slice).Elem())] = true
			}
		}
	}
	return out
}
