// solve.go - SMT-LIB emission and the solver portfolio (z3-new, z3 4.8.12, cvc5).
package main

import (
	"bytes"
	"context"
	"fmt"
	"os"
	"os/exec"
	"regexp"
	"strings"
	"sync"
	"time"
)

const prelude = `(set-logic ALL)
(define-sort F32 () (_ FloatingPoint 8 24))
(define-sort F64 () (_ FloatingPoint 11 53))
(define-fun EMPTY8 () (Array (_ BitVec 64) (_ BitVec 8)) ((as const (Array (_ BitVec 64) (_ BitVec 8))) #x00))
(declare-fun fadd_F32 (F32 F32) F32)
(declare-fun fsub_F32 (F32 F32) F32)
(declare-fun fmul_F32 (F32 F32) F32)
(declare-fun fdiv_F32 (F32 F32) F32)
(declare-fun fadd_F64 (F64 F64) F64)
(declare-fun fsub_F64 (F64 F64) F64)
(declare-fun fmul_F64 (F64 F64) F64)
(declare-fun fdiv_F64 (F64 F64) F64)
(declare-fun i2f_u8_F32 ((_ BitVec 8)) F32)
(declare-fun i2f_u8_F64 ((_ BitVec 8)) F64)
(declare-fun i2f_u16_F32 ((_ BitVec 16)) F32)
(declare-fun i2f_u16_F64 ((_ BitVec 16)) F64)
(declare-fun i2f_u32_F32 ((_ BitVec 32)) F32)
(declare-fun i2f_u32_F64 ((_ BitVec 32)) F64)
(declare-fun i2f_u64_F32 ((_ BitVec 64)) F32)
(declare-fun i2f_u64_F64 ((_ BitVec 64)) F64)
(declare-fun i2f_s8_F32 ((_ BitVec 8)) F32)
(declare-fun i2f_s8_F64 ((_ BitVec 8)) F64)
(declare-fun i2f_s16_F32 ((_ BitVec 16)) F32)
(declare-fun i2f_s16_F64 ((_ BitVec 16)) F64)
(declare-fun i2f_s32_F32 ((_ BitVec 32)) F32)
(declare-fun i2f_s32_F64 ((_ BitVec 32)) F64)
(declare-fun i2f_s64_F32 ((_ BitVec 64)) F32)
(declare-fun i2f_s64_F64 ((_ BitVec 64)) F64)
(assert (= (i2f_u8_F32 #x00) ((_ to_fp_unsigned 8 24) RNE #x00)))
(assert (= (i2f_u8_F64 #x00) ((_ to_fp_unsigned 11 53) RNE #x00)))
(assert (= (i2f_u16_F32 #x0000) ((_ to_fp_unsigned 8 24) RNE #x0000)))
(assert (= (i2f_u16_F64 #x0000) ((_ to_fp_unsigned 11 53) RNE #x0000)))
(assert (= (i2f_u32_F32 #x00000000) ((_ to_fp_unsigned 8 24) RNE #x00000000)))
(assert (= (i2f_u32_F64 #x00000000) ((_ to_fp_unsigned 11 53) RNE #x00000000)))
(assert (= (i2f_u64_F32 #x0000000000000000) ((_ to_fp_unsigned 8 24) RNE #x0000000000000000)))
(assert (= (i2f_u64_F64 #x0000000000000000) ((_ to_fp_unsigned 11 53) RNE #x0000000000000000)))
(assert (= (i2f_s8_F32 #x00) ((_ to_fp 8 24) RNE #x00)))
(assert (= (i2f_s8_F64 #x00) ((_ to_fp 11 53) RNE #x00)))
(assert (= (i2f_s16_F32 #x0000) ((_ to_fp 8 24) RNE #x0000)))
(assert (= (i2f_s16_F64 #x0000) ((_ to_fp 11 53) RNE #x0000)))
(assert (= (i2f_s32_F32 #x00000000) ((_ to_fp 8 24) RNE #x00000000)))
(assert (= (i2f_s32_F64 #x00000000) ((_ to_fp 11 53) RNE #x00000000)))
(assert (= (i2f_s64_F32 #x0000000000000000) ((_ to_fp 8 24) RNE #x0000000000000000)))
(assert (= (i2f_s64_F64 #x0000000000000000) ((_ to_fp 11 53) RNE #x0000000000000000)))
` + arithDefs + "\n"

// integer division/remainder by a non-constant divisor go through these names: defined (interpreted) normally,
// declared (uninterpreted) in the abstraction stage - a goal that follows by congruence alone then needs no divider circuits
const arithDefs = `(define-fun udiv8 ((a (_ BitVec 8)) (b (_ BitVec 8))) (_ BitVec 8) (bvudiv a b))
(define-fun sdiv8 ((a (_ BitVec 8)) (b (_ BitVec 8))) (_ BitVec 8) (bvsdiv a b))
(define-fun urem8 ((a (_ BitVec 8)) (b (_ BitVec 8))) (_ BitVec 8) (bvurem a b))
(define-fun srem8 ((a (_ BitVec 8)) (b (_ BitVec 8))) (_ BitVec 8) (bvsrem a b))
(define-fun udiv16 ((a (_ BitVec 16)) (b (_ BitVec 16))) (_ BitVec 16) (bvudiv a b))
(define-fun sdiv16 ((a (_ BitVec 16)) (b (_ BitVec 16))) (_ BitVec 16) (bvsdiv a b))
(define-fun urem16 ((a (_ BitVec 16)) (b (_ BitVec 16))) (_ BitVec 16) (bvurem a b))
(define-fun srem16 ((a (_ BitVec 16)) (b (_ BitVec 16))) (_ BitVec 16) (bvsrem a b))
(define-fun udiv32 ((a (_ BitVec 32)) (b (_ BitVec 32))) (_ BitVec 32) (bvudiv a b))
(define-fun sdiv32 ((a (_ BitVec 32)) (b (_ BitVec 32))) (_ BitVec 32) (bvsdiv a b))
(define-fun urem32 ((a (_ BitVec 32)) (b (_ BitVec 32))) (_ BitVec 32) (bvurem a b))
(define-fun srem32 ((a (_ BitVec 32)) (b (_ BitVec 32))) (_ BitVec 32) (bvsrem a b))
(define-fun udiv64 ((a (_ BitVec 64)) (b (_ BitVec 64))) (_ BitVec 64) (bvudiv a b))
(define-fun sdiv64 ((a (_ BitVec 64)) (b (_ BitVec 64))) (_ BitVec 64) (bvsdiv a b))
(define-fun urem64 ((a (_ BitVec 64)) (b (_ BitVec 64))) (_ BitVec 64) (bvurem a b))
(define-fun srem64 ((a (_ BitVec 64)) (b (_ BitVec 64))) (_ BitVec 64) (bvsrem a b))`
const arithDecls = `(declare-fun udiv8 ((_ BitVec 8) (_ BitVec 8)) (_ BitVec 8))
(declare-fun sdiv8 ((_ BitVec 8) (_ BitVec 8)) (_ BitVec 8))
(declare-fun urem8 ((_ BitVec 8) (_ BitVec 8)) (_ BitVec 8))
(declare-fun srem8 ((_ BitVec 8) (_ BitVec 8)) (_ BitVec 8))
(declare-fun udiv16 ((_ BitVec 16) (_ BitVec 16)) (_ BitVec 16))
(declare-fun sdiv16 ((_ BitVec 16) (_ BitVec 16)) (_ BitVec 16))
(declare-fun urem16 ((_ BitVec 16) (_ BitVec 16)) (_ BitVec 16))
(declare-fun srem16 ((_ BitVec 16) (_ BitVec 16)) (_ BitVec 16))
(declare-fun udiv32 ((_ BitVec 32) (_ BitVec 32)) (_ BitVec 32))
(declare-fun sdiv32 ((_ BitVec 32) (_ BitVec 32)) (_ BitVec 32))
(declare-fun urem32 ((_ BitVec 32) (_ BitVec 32)) (_ BitVec 32))
(declare-fun srem32 ((_ BitVec 32) (_ BitVec 32)) (_ BitVec 32))
(declare-fun udiv64 ((_ BitVec 64) (_ BitVec 64)) (_ BitVec 64))
(declare-fun sdiv64 ((_ BitVec 64) (_ BitVec 64)) (_ BitVec 64))
(declare-fun urem64 ((_ BitVec 64) (_ BitVec 64)) (_ BitVec 64))
(declare-fun srem64 ((_ BitVec 64) (_ BitVec 64)) (_ BitVec 64))`

type Solver struct {
	Timeout  int // seconds per query
	Parallel int
	Cross    bool // re-check every discharged obligation with a second solver
	sem      chan struct{}
	sem2     chan struct{} // concurrent solver processes in portfolio races
	mu       sync.Mutex
	Stats    map[string]*solverStat
	DumpDir  string
	Queries  int64
}

type solverStat struct {
	Unsat, Sat, Unknown int
	Ms                  int64
}

func newSolver(timeout, par int) *Solver {
	return &Solver{Timeout: timeout, Parallel: par, sem: make(chan struct{}, par), sem2: make(chan struct{}, 24), Stats: map[string]*solverStat{}}
}

func (c *Ctx) queryText(o Obl, getModel bool, vals []string) string {
	var sb strings.Builder
	if getModel {
		sb.WriteString("(set-option :produce-models true)\n")
	}
	sb.WriteString(prelude)
	for _, d := range c.decls[:o.NDecl] {
		sb.WriteString(d)
		sb.WriteByte('\n')
	}
	for _, a := range c.asms[:o.NAsm] {
		sb.WriteString("(assert ")
		sb.WriteString(a)
		sb.WriteString(")\n")
	}
	sb.WriteString("(assert " + o.Reach + ")\n(assert (not " + o.Cond + "))\n(check-sat)\n")
	if getModel && len(vals) > 0 {
		sb.WriteString("(get-value (" + strings.Join(vals, " ") + "))\n")
	}
	return strings.ReplaceAll(sb.String(), "@fn:ctabf_", "ctaba_")
}

var solverCmds = map[string]func(timeout int) []string{
	"z3-new": func(t int) []string { return []string{"z3-new", fmt.Sprintf("-T:%d", t), "-in"} },
	"z3":     func(t int) []string { return []string{"z3", fmt.Sprintf("-T:%d", t), "-in"} },
	"z3-euf": func(t int) []string { return []string{"z3-new", fmt.Sprintf("-T:%d", t), "sat.euf=true", "-in"} },
	"cvc5": func(t int) []string {
		return []string{"cvc5", "--lang=smt2", fmt.Sprintf("--tlimit=%d", t*1000), "--enum-inst", "--produce-models"}
	},
}

func (sv *Solver) run(name, query string, timeout int) (status, out string, ms int64) {
	return sv.runCtx(context.Background(), name, query, timeout)
}

type raceJob struct {
	solver string
	query  string
	full   bool // the real query (a `sat` answer counts); false: a strengthened variant (only `unsat` counts)
}

// race runs the jobs concurrently and returns the first definitive answer (cancelling the rest).
func (sv *Solver) race(jobs []raceJob, timeout int) (status, solver, out string, ms int64) {
	ctx, cancel := context.WithCancel(context.Background())
	defer cancel()
	type res struct {
		j       raceJob
		st, out string
		ms      int64
	}
	ch := make(chan res, len(jobs))
	for _, j := range jobs {
		j := j
		go func() {
			sv.sem2 <- struct{}{}
			defer func() { <-sv.sem2 }()
			if ctx.Err() != nil {
				ch <- res{j, "cancelled", "", 0}
				return
			}
			st, o, m := sv.runCtx(ctx, j.solver, j.query, timeout)
			ch <- res{j, st, o, m}
		}()
	}
	status = "unknown"
	for range jobs {
		r := <-ch
		if r.ms > ms {
			ms = r.ms
		}
		if r.st == "unsat" || (r.st == "sat" && r.j.full) {
			return r.st, r.j.solver, r.out, r.ms
		}
		if r.j.full && r.j.solver == "z3-new" && (r.st == "timeout" || r.st == "unknown") {
			status, solver, out = r.st, r.j.solver, r.out
		}
	}
	if solver == "" {
		solver = "portfolio"
	}
	return
}

func (sv *Solver) runCtx(parent context.Context, name, query string, timeout int) (status, out string, ms int64) {
	args := solverCmds[name](timeout)
	ctx, cancel := context.WithTimeout(parent, time.Duration(timeout+3)*time.Second)
	defer cancel()
	cmd := exec.CommandContext(ctx, args[0], args[1:]...)
	query = strings.ReplaceAll(query, "@fn:ctabf_", "ctaba_")
	if name == "cvc5" {
		query = strings.Replace(query, "(set-option :produce-models true)\n", "", 1)
		if strings.Contains(query, "(lambda ((i ") {
			query = delambda(query)
		}
	}
	cmd.Stdin = strings.NewReader(query)
	var ob bytes.Buffer
	cmd.Stdout = &ob
	cmd.Stderr = &ob
	t0 := time.Now()
	_ = cmd.Run()
	ms = time.Since(t0).Milliseconds()
	out = ob.String()
	first := strings.TrimSpace(strings.SplitN(out, "\n", 2)[0])
	switch first {
	case "unsat", "sat", "unknown":
		status = first
	case "timeout":
		status = "timeout"
	default:
		if parent.Err() != nil {
			status = "cancelled"
		} else if ctx.Err() != nil || strings.Contains(out, "timeout") || strings.Contains(out, "interrupted") {
			status = "timeout"
		} else {
			status = "error"
		}
	}
	sv.mu.Lock()
	st := sv.Stats[name]
	if st == nil {
		st = &solverStat{}
		sv.Stats[name] = st
	}
	switch status {
	case "unsat":
		st.Unsat++
	case "sat":
		st.Sat++
	default:
		st.Unknown++
	}
	st.Ms += ms
	sv.Queries++
	sv.mu.Unlock()
	return
}

// inputTerms lists the scalar leaf terms of the symbolic inputs (for model extraction).
func (c *Ctx) inputTerms() []string {
	var ts []string
	for _, in := range c.inputs {
		for _, l := range leaves(in.Val) {
			if strings.HasPrefix(l.S, "(Array") {
				continue
			}
			ts = append(ts, l.T)
		}
	}
	return ts
}

var valRe = regexp.MustCompile(`\(([A-Za-z_][A-Za-z0-9_!]*)\s+([^()]+|\([^()]*\)|\(- [^()]*\))\)`)

func parseValues(out string) map[string]string {
	m := map[string]string{}
	for _, mm := range valRe.FindAllStringSubmatch(out, -1) {
		m[mm[1]] = strings.TrimSpace(mm[2])
	}
	return m
}

// solveOne discharges one obligation: z3-new first, then z3 and cvc5 on an indefinite answer.
func (sv *Solver) solveOne(c *Ctx, o Obl, timeout int, wantModel bool) OblResult {
	r := OblResult{Obl: o}
	if o.Cond == "true" {
		r.Status, r.Solver = "unsat", "trivial"
		return r
	}
	// Stage A: z3-new alone for a short time (almost every obligation is decided here in milliseconds). For obligations
	// with quantified contracts the quantifier-free strengthening (quant.go) is tried first: unsat there implies unsat.
	qf := c.qfQuery(o)
	q := c.queryText(o, false, nil)
	if d := os.Getenv("VCGO_DUMP_OBL"); d != "" && strings.Contains(o.Name, d) {
		os.WriteFile("/tmp/dumpobl_"+sanitizeSym(o.Name)+".smt2", []byte(q), 0o644)
	}
	if sv.DumpDir != "" && qf != "" {
		os.MkdirAll(sv.DumpDir, 0o755)
		os.WriteFile(fmt.Sprintf("%s/QF_%s.smt2", sv.DumpDir, sanitizeSym(o.Name)), []byte(qf), 0o644)
	}
	short := 2
	if timeout < short {
		short = timeout
	}
	done := false
	// Stage A0: for large contexts, a sliced query (relevant assumptions only) - unsat there implies unsat of the real one
	if sq := c.slicedQuery(o, q); sq != "" {
		st, out, ms := sv.run("z3-new", sq, short+1)
		r.Ms += ms
		if st == "unsat" {
			r.Status, r.Solver, r.Output, done = "unsat", "z3-new", "sliced: "+firstLines(out, 1), true
			qf = ""
			q = sq
		}
	}
	if done {
		// fall through to cross-check / return
	} else
	if qf != "" {
		st, out, ms := sv.run("z3-new", qf, short)
		r.Ms += ms
		if st == "unsat" {
			r.Status, r.Solver, r.Output, done = "unsat", "z3-new", "qf-instantiated: "+firstLines(out, 1), true
		}
	} else {
		st, out, ms := sv.run("z3-new", q, short)
		r.Ms += ms
		r.Status, r.Solver, r.Output = st, "z3-new", firstLines(out, 3)
		if st == "unsat" || st == "sat" {
			done = true
		}
	}
	// Stage A1: the same query on z3's euf-first core: congruence/array reasoning before bit-blasting - decisive for
	// goals that follow by transitivity over opaque arithmetic terms (and useless for genuinely arithmetic ones, hence short)
	if !done && qf == "" {
		st, out, ms := sv.run("z3-euf", q, short+1)
		r.Ms += ms
		if st == "unsat" {
			r.Status, r.Solver, r.Output, done = "unsat", "z3-euf", firstLines(out, 1), true
		}
	}
	// Stage A1c: hypotheses' byte-level foralls instantiated at the constant offsets 0..47
	if !done {
		if qk := c.qfQueryK(o, 48); qk != "" {
			if sv.DumpDir != "" {
				os.WriteFile(fmt.Sprintf("%s/QK_%s.smt2", sv.DumpDir, sanitizeSym(o.Name)), []byte(qk), 0o644)
			}
			for _, sn := range []string{"z3-new", "z3-euf"} {
				st, out, ms := sv.run(sn, qk, short+3)
				r.Ms += ms
				if st == "unsat" {
					r.Status, r.Solver, r.Output, done = "unsat", sn, "qf-instantiated at constant offsets: "+firstLines(out, 1), true
					break
				}
			}
			if !done && strings.Contains(qk, "div") {
				st, out, ms := sv.run("z3-euf", strings.Replace(qk, arithDefs, arithDecls, 1), short+3)
				r.Ms += ms
				if st == "unsat" {
					r.Status, r.Solver, r.Output, done = "unsat", "z3-euf", "qf-instantiated at constant offsets, divisions uninterpreted: "+firstLines(out, 1), true
				}
			}
		}
	}
	// Stage A1b: integer divisions abstracted to uninterpreted functions (sound: fewer facts), euf core
	if !done && qf == "" && strings.Contains(q, "div") && (strings.Contains(q, "(udiv") || strings.Contains(q, "(sdiv") || strings.Contains(q, "(urem") || strings.Contains(q, "(srem")) {
		aq := strings.Replace(q, arithDefs, arithDecls, 1)
		for _, sn := range []string{"z3-euf", "z3-new"} {
			st, out, ms := sv.run(sn, aq, short+3)
			r.Ms += ms
			if st == "unsat" {
				r.Status, r.Solver, r.Output, done = "unsat", sn, "divisions uninterpreted: "+firstLines(out, 1), true
				break
			}
		}
	}
	// Stage A2: case split on the last control-flow join: the obligation's path condition is a disjunction of edge
	// conditions; proving the goal under each of them separately is equivalent and usually much cheaper.
	if !done && o.splitDepth < 2 {
		if parts := c.reachParts[o.Reach]; len(parts) > 1 && len(parts) <= 12 {
			subs := make([]OblResult, len(parts))
			var wg sync.WaitGroup
			for i, pc := range parts {
				i, pc := i, pc
				wg.Add(1)
				go func() {
					defer wg.Done()
					so := o
					so.Reach = pc
					so.splitDepth = o.splitDepth + 1
					so.Parts = nil
					subs[i] = sv.solveOne(c, so, timeout, false)
				}()
			}
			wg.Wait()
			all := true
			for _, sr := range subs {
				r.Ms += sr.Ms
				if sr.Status != "unsat" {
					all = false
				}
			}
			if all {
				r.Status, r.Solver, r.Output, done = "unsat", "split", fmt.Sprintf("case split over %d incoming paths", len(parts)), true
				qf = ""
			}
		}
	}
	// Stage B: race the whole portfolio (z3 5.1 default and sat.euf cores, z3 4.8.12, cvc5) on the real query and on
	// the strengthened one; the first definitive answer wins.
	if !done {
		var jobs []raceJob
		if qf != "" {
			for _, sn := range []string{"cvc5", "z3-euf", "z3", "z3-new"} {
				jobs = append(jobs, raceJob{sn, qf, false})
			}
		}
		for _, sn := range []string{"z3-new", "z3-euf", "cvc5", "z3"} {
			jobs = append(jobs, raceJob{sn, q, true})
		}
		st, sn, out, ms := sv.race(jobs, timeout)
		r.Ms += ms
		r.Status, r.Solver, r.Output = st, sn, firstLines(out, 3)
	}
	usedQ := q
	if qf != "" && r.Status == "unsat" {
		usedQ = qf // cross-check the same formulation that was decided, then the real one
	}
	if r.Status == "sat" && wantModel {
		terms := c.inputTerms()
		if len(terms) > 0 {
			mq := c.queryText(o, true, terms)
			st, out, _ := sv.run("z3-new", mq, timeout)
			if st == "sat" {
				r.Model = parseValues(out)
			}
		}
	}
	if sv.Cross && r.Status == "unsat" {
		other := "z3"
		if r.Solver == "z3" {
			other = "z3-new"
		}
		if r.Solver == "cvc5" {
			other = "z3"
		}
		var cj []raceJob
		for _, sn := range []string{"z3-new", "z3-euf", "z3", "cvc5"} {
			if sn != r.Solver && !(r.Solver == "z3-new" && sn == "z3-euf") && !(r.Solver == "z3-euf" && sn == "z3-new") {
				// a weakened formulation (instantiated / sliced hypotheses) can only confirm: `sat` there says nothing
				cj = append(cj, raceJob{sn, usedQ, usedQ == q})
				if usedQ != q {
					cj = append(cj, raceJob{sn, q, true})
				}
			}
		}
		st, sn, _, _ := sv.race(cj, timeout)
		if sn != "" && sn != "portfolio" {
			other = sn
		}
		r.Cross = other + ":" + st
	}
	if sv.DumpDir != "" && r.Status != "unsat" {
		os.MkdirAll(sv.DumpDir, 0o755)
		os.WriteFile(fmt.Sprintf("%s/%s.smt2", sv.DumpDir, sanitizeSym(o.Name)), []byte(q), 0o644)
	}
	if r.Status != "unsat" {
		r.Query = q
	}
	return r
}

func firstLines(s string, n int) string {
	ls := strings.Split(strings.TrimSpace(s), "\n")
	if len(ls) > n {
		ls = ls[:n]
	}
	return strings.Join(ls, " | ")
}

func (sv *Solver) solveAll(c *Ctx, obls []Obl, timeout int, wantModel bool) []OblResult {
	out := make([]OblResult, len(obls))
	var wg sync.WaitGroup
	for i, o := range obls {
		i, o := i, o
		wg.Add(1)
		sv.sem <- struct{}{}
		go func() {
			defer wg.Done()
			defer func() { <-sv.sem }()
			out[i] = sv.solveOne(c, o, timeout, wantModel && len(o.Parts) == 0)
		}()
	}
	wg.Wait()
	// grouped obligations that were not discharged at once: decide their parts one by one (names the failing component;
	// if every part is discharged the conjunction is, too)
	var flat []OblResult
	for i, r := range out {
		if len(obls[i].Parts) == 0 || r.Status == "unsat" {
			flat = append(flat, r)
			continue
		}
		prs := sv.solveAll(c, obls[i].Parts, timeout, wantModel)
		allOK := true
		for _, pr := range prs {
			if pr.Status != "unsat" {
				allOK = false
				flat = append(flat, pr)
			}
		}
		if allOK {
			r.Status, r.Solver, r.Output = "unsat", "parts", "every conjunct discharged individually"
			flat = append(flat, r)
		}
	}
	return flat
}

// checkSat asks whether a set of assumptions is satisfiable (vacuity guards).
func (sv *Solver) checkSat(c *Ctx, ndecl, nasm int, extra string, timeout int) string {
	var sb strings.Builder
	sb.WriteString(prelude)
	for _, d := range c.decls[:ndecl] {
		sb.WriteString(d + "\n")
	}
	for _, a := range c.asms[:nasm] {
		sb.WriteString("(assert " + a + ")\n")
	}
	if extra != "" {
		sb.WriteString("(assert " + extra + ")\n")
	}
	sb.WriteString("(check-sat)\n")
	st, _, _ := sv.run("z3-new", sb.String(), timeout)
	if st != "sat" && st != "unsat" {
		st2, _, _ := sv.run("cvc5", sb.String(), timeout)
		if st2 == "sat" || st2 == "unsat" {
			return st2
		}
	}
	return st
}

// delambda rewrites `(define-fun X () (Array I E) (lambda ((i I)) BODY))` (z3 syntax for constant tables) into a declared
// array constant with the pointwise axiom, which cvc5 accepts.
func delambda(q string) string {
	lines := strings.Split(q, "\n")
	for k, l := range lines {
		if !strings.HasPrefix(l, "(define-fun ") {
			continue
		}
		li := strings.Index(l, " (lambda ((i ")
		if li < 0 {
			continue
		}
		head := l[len("(define-fun "):li] // NAME () SORT
		sp := strings.Index(head, " () ")
		if sp < 0 {
			continue
		}
		name, srt := head[:sp], head[sp+4:]
		rest := l[li+len(" (lambda ((i "):]
		// rest = INDEXSORT)) BODY))
		ci := strings.Index(rest, ")) ")
		if ci < 0 || !strings.HasSuffix(rest, "))") {
			continue
		}
		isort := rest[:ci]
		body := rest[ci+3 : len(rest)-2]
		lines[k] = fmt.Sprintf("(declare-const %s %s)\n(assert (forall ((i %s)) (= (select %s i) %s)))", name, srt, isort, name, body)
	}
	return strings.Join(lines, "\n")
}
