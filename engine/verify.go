// verify.go - per-function VC generation (contracts, frame conditions, Houdini driver).
package main

import (
	"os"
	"fmt"
	"go/token"
	"go/types"
	"sort"
	"strings"

	"golang.org/x/tools/go/ssa"
)

type OblResult struct {
	Obl
	Status  string // unsat | sat | unknown | timeout | error
	Solver  string
	Ms      int64
	Output  string
	Model   map[string]string
	Query   string
	Cross   string // second-solver result (thorough)
	Vacuous bool
}

type FnResult struct {
	Name        string
	Unsupported string
	Stale       []string
	Obls        []OblResult
	Notes       map[string]int
	Deps        []string
	Callees     []string
	Unknown     map[string]int
	HKept       int
	HTotal      int
	HasContract bool
	Assumed     bool
	Loops       int
	InferredVariants []string
	AllocSites  []allocSite
	ctx         *Ctx
	PreSat      string
	Inputs      []inputVar
	Pos         token.Position
	Quantified  bool
	DeadEdges   []string
	Skipped     int // obligations tagged for other properties only (not solved in this run)
}

func (w *World) newCtx(fn *ssa.Function) *Ctx {
	c := &Ctx{w: w, fset: w.fset, root: fn, curFn: fn, notes: map[string]int{}, ordinal: map[string]int{}, strLits: map[string]string{},
		depsUsed: map[string]bool{}, callees: map[string]bool{}, unknownCalls: map[string]int{}, constArrVals: map[string]Val{},
		boxed: map[string]boxedVal{}, ufDecl: map[string]bool{}, variantEntry: map[int][]autoMeasure{}, streamInv: map[string]bool{}, dropped: map[string]bool{}, hcount: map[string]bool{}}
	c.top = "top0"
	c.decls = append(c.decls, "(declare-const top0 Int)")
	c.asms = append(c.asms, "(>= top0 1000000)")
	return c
}

func paramNames(fn *ssa.Function) calleeNames {
	var n calleeNames
	for _, p := range fn.Params {
		n.params = append(n.params, p.Name())
		n.ptypes = append(n.ptypes, p.Type())
	}
	sig := fn.Signature
	for i := 0; i < sig.Results().Len(); i++ {
		nm := sig.Results().At(i).Name()
		if nm == "" || nm == "_" {
			nm = fmt.Sprintf("r%d", i)
		}
		n.results = append(n.results, nm)
		n.rtypes = append(n.rtypes, sig.Results().At(i).Type())
	}
	if fn.Pkg != nil {
		n.pkg = fn.Pkg.Pkg
	}
	return n
}

// contractEnvLocal resolves names against the current values of the function's locals (loop invariants).
func (c *Ctx) contractEnvLocal(fr *Frame, st *State) *CEnv {
	fn := fr.fn
	env := &CEnv{c: c, st: st, old: c.entryState}
	if fn.Pkg != nil {
		env.pkg = fn.Pkg.Pkg
	}
	env.lookup = func(name string, old bool) (CVal, bool) {
		if old {
			for i, p := range fn.Params {
				if p.Name() == name && fr.isRoot && i < len(c.entryArgs) {
					return CVal{V: normPtr(c.entryArgs[i]), T: p.Type()}, true
				}
			}
		}
		// innermost declaration wins: take the last declared alloc with that name
		var best *ssa.Alloc
		for _, a := range fn.Locals {
			if a.Comment == name {
				best = a
			}
		}
		if best == nil {
			for _, b := range fn.Blocks {
				for _, ins := range b.Instrs {
					if a, ok := ins.(*ssa.Alloc); ok && a.Heap && a.Comment == name {
						best = a
					}
				}
			}
		}
		if best != nil {
			et := best.Type().(*types.Pointer).Elem()
			if pv, ok := fr.env[best]; ok {
				switch p := pv.(type) {
				case PtrV:
					return CVal{V: normPtr(c.load(st, p)), T: et}, true
				case Sc:
					return CVal{V: normPtr(c.load(st, PtrV{Kind: 1, Ref: p.T, Root: et, Elem: et})), T: et}, true
				}
			}
			if v, ok := st.locals[best]; ok {
				return CVal{V: normPtr(v), T: et}, true
			}
		}
		for _, p := range fn.Params {
			if p.Name() == name {
				if v, ok := fr.env[p]; ok {
					return CVal{V: normPtr(v), T: p.Type()}, true
				}
			}
		}
		return CVal{}, false
	}
	return env
}

// genVCs generates all obligations of fn.
func (w *World) genVCs(fn *ssa.Function, useH bool, dropped, hcount map[string]bool, tier string) (c *Ctx, unsup string, stale []string) {
	c = w.newCtx(fn)
	c.useH = useH
	if dropped != nil {
		c.dropped = dropped
	}
	if hcount != nil {
		c.hcount = hcount
	}
	ct := w.contracts[fnName(fn)]
	c.contract = ct
	defer func() {
		if r := recover(); r != nil {
			switch x := r.(type) {
			case unsupported:
				unsup = x.why
			case contractError:
				stale = append(stale, x.msg)
				unsup = "contract error: " + x.msg
			default:
				panic(r)
			}
		}
	}()
	var args []Val
	for _, p := range fn.Params {
		v := c.freshVal(p.Type(), "p_"+p.Name())
		args = append(args, v)
		c.inputs = append(c.inputs, inputVar{Name: p.Name(), Val: v, T: p.Type()})
	}
	c.entryArgs = args
	// a parameter of interface type I does not hold a value of a module type that lacks I's methods (language typing); stated
	// for the stream-alias types, whose presence would otherwise let e.g. an io.ReadSeeker be an isobmff box
	for i, p := range fn.Params {
		it, ok := p.Type().Underlying().(*types.Interface)
		iv, ok2 := args[i].(IfaceV)
		if !ok || !ok2 {
			continue
		}
		env := &CEnv{c: c}
		if fn.Pkg != nil {
			env.pkg = fn.Pkg.Pkg
		}
		for _, al := range w.streamAlias {
			func() {
				defer func() { recover() }()
				t := c.resolveTypeName(env, al.typ)
				if t != nil && !types.Implements(t, it) {
					c.assume("true", fmt.Sprintf("(not (= %s %d))", iv.Tag, w.typeTag(t)))
				}
			}()
		}
	}
	if fn.Signature.Recv() != nil {
		if _, isPtr := fn.Signature.Recv().Type().(*types.Pointer); isPtr {
			if r, ok := ptrAsRef(args[0]); ok {
				c.assume("true", fmt.Sprintf("(> %s 0)", r.T))
			}
		}
	}
	st := newState()
	names := paramNames(fn)
	if ct != nil {
		env := &CEnv{c: c, st: st, old: st, lookup: mkLookup(names, args, nil), pkg: names.pkg}
		for _, rq := range ct.Requires {
			c.assume("true", c.evalBool(env, rq.Expr, rq.Text))
		}
		if len(ct.Decreases) > 0 {
			for _, d := range ct.Decreases {
				c.entryVariant = append(c.entryVariant, c.toBV64(c.evalExpr(env, d.Expr)))
			}
		}
	}
	c.nPre = len(c.asms)
	c.nPreDecl = len(c.decls)
	c.touchAll(st)
	c.entryState = st.clone()
	rv, out, rr := c.exec(fn, args, st, "true", 0)
	if ct != nil && rr != "false" {
		penv := &CEnv{c: c, st: out, old: c.entryState, lookup: mkLookup(names, args, rv), pkg: names.pkg}
		if len(ct.Ghosts) > 0 {
			// ghost results: the value of an expression over the function's locals in the (merged) return state
			lenv := c.contractEnvLocal(c.rootFrame, out)
			gv := map[string]CVal{}
			for _, g := range ct.Ghosts {
				v := c.evalExpr(lenv, g.Expr.Expr)
				if t := basicTypes[g.Type]; t != nil {
					v = c.materialize(v, t)
				}
				if lv, ok := v.V.(PtrV); ok {
					v = CVal{V: c.load(out, lv), T: v.T}
				}
				gv[g.Name] = v
			}
			base := penv.lookup
			penv.lookup = func(name string, old bool) (CVal, bool) {
				if v, ok := gv[name]; ok {
					return v, true
				}
				return base(name, old)
			}
		}
		for _, u := range ct.Uses {
			c.assume(rr, c.lemmaInstance(penv, u.Expr, nil))
		}
		for k, en := range ct.Ensures {
			if en.Tier == "thorough" && tier != "thorough" {
				continue
			}
			f := c.evalBool(penv, en.Expr, en.Text)
			if cj := splitDeep(f); len(cj) > 1 && len(cj) <= 80 {
				// a top-level conjunction is split so that the failing member is named and gets its own model
				for j, g := range cj {
					c.obligeProps("ensures", fmt.Sprintf("%d.%d", k, j), rr, g, fn.Pos(), fmt.Sprintf("conjunct %d of: %s", j, en.Text), en.Props)
				}
				continue
			}
			c.obligeProps("ensures", fmt.Sprintf("%d", k), rr, f, fn.Pos(), en.Text, en.Props)
		}
		if ct.HasMod {
			c.frameObligations(ct, names, args, out, rr)
		}
	}
	return c, "", nil
}

// ---------- frame conditions (`modifies`) ----------

// frameItem: one heap component / element memory and the locations of it the function may change.
type frameItem struct {
	key   string
	isMem bool
	pre   string   // term in the entry state
	post  string   // term in the state under inspection
	locs  []string // refs (heap) or array ids (mem) that may change
	whole bool     // the whole component may change
}

// frameItems lists every component known in st with its modifiable locations according to the contract's `modifies`.
// ok is false when the contract modifies `*`.
func (c *Ctx) frameItems(ct *Contract, names calleeNames, args []Val, st *State) (items []frameItem, ok bool) {
	items, ok = c.frameItems0(ct, names, args, st)
	if !ok || !c.frameLocals || len(c.localObjs) == 0 {
		return
	}
	// loop frames: the function's own address-taken locals (objects allocated after entry) may change freely
	for i := range items {
		if items[i].whole {
			continue
		}
		for _, r0 := range c.localObjs {
			// never exempt an object that existed at entry (a callee result that is fresh only on some paths is
			// unconstrained on the others): guarded location, the nil object otherwise
			r := "(ite (> " + r0 + " top0) " + r0 + " 0)"
			if items[i].isMem {
				items[i].locs = append(items[i].locs, "(* 4096 "+r+")")
				for _, k := range arrFieldIdList() {
					items[i].locs = append(items[i].locs, fmt.Sprintf("(+ (* 4096 %s) %d)", r, k))
				}
			} else {
				items[i].locs = append(items[i].locs, r)
			}
		}
	}
	return
}

func arrFieldIdList() []int {
	var ks []int
	arrFieldMu.Lock()
	defer arrFieldMu.Unlock()
	for _, k := range arrFieldIds {
		ks = append(ks, k)
	}
	sort.Ints(ks)
	return ks
}

func (c *Ctx) frameItems0(ct *Contract, names calleeNames, args []Val, st *State) (items []frameItem, ok bool) {
	env := &CEnv{c: c, st: c.entryState, old: c.entryState, lookup: mkLookup(names, args, nil), pkg: names.pkg}
	var locs []modLoc
	for _, m := range ct.Modifies {
		l := c.resolveMod(env, m)
		if l.all {
			return nil, false
		}
		locs = append(locs, l)
	}
	c.touchAll(st)
	c.touchAll(c.entryState)
	foreign := ""
	allStreams := false
	for _, l := range locs {
		if l.foreign != "" {
			foreign = l.foreign
		}
		if l.streams {
			allStreams = true
		}
	}
	for _, k := range sortedKeys(st.heap) {
		it := frameItem{key: k, post: st.heap[k]}
		if foreign != "" && !ownedKey(k, foreign) && !(strings.HasPrefix(k, "ghost.const.") || k == "ghost.lim" || k == "ghost.sid" || k == "ghost.bsize" || k == "ghost.data") {
			it.whole = true
		}
		if allStreams && (k == "ghost.pos" || k == "ghost.peeked" || k == "ghost.fault" || k == "ghost.sid" || k == "ghost.lim") {
			it.whole = true
		}
		for _, l := range locs {
			if l.streamId != "" && (k == "ghost.sid" || k == "ghost.lim") {
				it.locs = append(it.locs, l.streamId)
			}
		}
		pre, okp := c.entryState.heap[k]
		if !okp {
			pre = c.defName(c.entryState, k)
		}
		it.pre = pre
		for _, l := range locs {
			if l.stream != "" {
				for _, g := range streamGhosts {
					if k == "ghost."+g.name {
						it.locs = append(it.locs, l.stream)
					}
				}
				continue
			}
			if l.memId != "" || l.keyPfx == "" {
				continue
			}
			if keyHasPrefix(k, l.keyPfx) {
				if l.whole {
					it.whole = true
				} else {
					it.locs = append(it.locs, l.ref)
				}
			}
		}
		items = append(items, it)
	}
	for _, k := range sortedKeys(st.mem) {
		it := frameItem{key: k, isMem: true, post: st.mem[k]}
		if foreign != "" && !ownedKey(k, foreign) {
			it.whole = true
		}
		for _, l := range locs {
			if l.memAll != nil && keyHasPrefix(k, typeKey(l.memAll)) {
				it.whole = true
			}
		}
		pre, okp := c.entryState.mem[k]
		if !okp {
			pre = c.defName(c.entryState, "M:"+k)
		}
		it.pre = pre
		for _, l := range locs {
			if l.memId != "" {
				if keyHasPrefix(k, typeKey(l.elem)) {
					it.locs = append(it.locs, l.memId)
				}
				continue
			}
			if l.keyPfx != "" && l.t != nil {
				c.leafKeys(l.keyPfx, l.t, func(string, string) {}, func(key string, at *types.Array) {
					if keyHasPrefix(k, typeKey(at.Elem())) {
						if l.whole {
							it.whole = true
						} else {
							it.locs = append(it.locs, arrIdOf(l.ref, key))
						}
					}
				})
			}
		}
		items = append(items, it)
	}
	return items, true
}

// framedSyntactically: post is pre updated only by stores at the allowed locations (through named definitions and ite merges).
func (c *Ctx) framedSyntactically(post, pre string, locs []string, depth int) bool {
	if post == pre {
		return true
	}
	if depth > 200 {
		return false
	}
	if d, ok := c.defs[post]; ok {
		return c.framedSyntactically(d, pre, locs, depth+1)
	}
	if strings.HasPrefix(post, "(store ") {
		kids, _ := sexprChildren(post, 0)
		if len(kids) == 4 {
			idx := post[kids[2][0]:kids[2][1]]
			for _, l := range locs {
				if l == idx {
					return c.framedSyntactically(post[kids[1][0]:kids[1][1]], pre, locs, depth+1)
				}
			}
		}
		return false
	}
	if strings.HasPrefix(post, "(ite ") {
		kids, _ := sexprChildren(post, 0)
		if len(kids) == 4 {
			return c.framedSyntactically(post[kids[2][0]:kids[2][1]], pre, locs, depth+1) && c.framedSyntactically(post[kids[3][0]:kids[3][1]], pre, locs, depth+1)
		}
	}
	return false
}

// frameCond is the SMT form of one frame condition. allRefs: objects up to the current allocation horizon c.frameTop
// (loop frame invariants: everything that existed when the iteration started), otherwise objects that existed at entry.
func (c *Ctx) frameCond(it frameItem, allRefs bool) string {
	exp := it.pre
	for _, r := range it.locs {
		exp = fmt.Sprintf("(store %s %s (select %s %s))", exp, r, it.post, r)
	}
	if it.isMem {
		rk := c.fresh("fmk", "Int")
		bound := fmt.Sprintf("(and (>= %s 0) (<= %s (+ (* 4096 top0) 4095)))", rk, rk)
		if allRefs {
			bound = fmt.Sprintf("(and (>= %s 0) (<= %s (+ (* 4096 %s) 4095)))", rk, rk, c.frameTop)
		}
		return fmt.Sprintf("(=> %s (= (select %s %s) (select %s %s)))", bound, it.post, rk, exp, rk)
	}
	// reference 0 is the nil object: its "fields" are a modelling convention, not program state
	rk := c.fresh("frk", "Int")
	bound := fmt.Sprintf("(and (>= %s 1) (<= %s top0))", rk, rk)
	if allRefs {
		bound = fmt.Sprintf("(and (>= %s 1) (<= %s %s))", rk, rk, c.frameTop)
	}
	return fmt.Sprintf("(=> %s (= (select %s %s) (select %s %s)))", bound, it.post, rk, exp, rk)
}

// frameObligations: everything not named in `modifies` is unchanged for pre-existing objects.
func (c *Ctx) frameObligations(ct *Contract, names calleeNames, args []Val, out *State, rr string) {
	c.groupedFrame("frame", "", ct, names, args, out, rr, c.root.Pos(), "only the locations in `modifies` change", false)
}

// groupedFrame emits the frame conditions of state st. Conditions that hold syntactically (the component is the entry
// component updated only at allowed locations) are counted as discharged by construction; the rest become ONE grouped
// obligation whose per-component parts are solved individually only if the group is not discharged at once.
func (c *Ctx) groupedFrame(kind, detailPfx string, ct *Contract, names calleeNames, args []Val, st *State, reach string, pos token.Pos, what string, allRefs bool) {
	items, ok := c.frameItems(ct, names, args, st)
	if !ok {
		return
	}
	var parts []Obl
	var conds []string
	nasm, ndecl0 := len(c.asms), len(c.decls)
	_ = ndecl0
	for _, it := range items {
		if it.whole || it.post == it.pre {
			continue
		}
		if c.framedSyntactically(it.post, it.pre, it.locs, 0) {
			c.notes["frame-syntactic"]++
			continue
		}
		detail := it.key
		if it.isMem {
			detail = "mem:" + it.key
		}
		cond := c.frameCond(it, allRefs)
		mark := len(c.obls)
		c.oblige(kind, detailPfx+detail, reach, cond, pos, what+": component "+detail)
		if len(c.obls) > mark {
			parts = append(parts, c.obls[mark])
			c.obls = c.obls[:mark]
			conds = append(conds, cond)
		}
	}
	if len(parts) == 0 {
		return
	}
	for i := range parts {
		parts[i].NAsm = nasm
		parts[i].NDecl = len(c.decls)
	}
	if len(parts) == 1 {
		c.obls = append(c.obls, parts[0])
		return
	}
	g := parts[0]
	g.Name = fmt.Sprintf("%s#%s:%sall@%d", fnName(c.root), kind, detailPfx, c.ordinal["group|"+kind])
	c.ordinal["group|"+kind]++
	g.Cond = and(conds...)
	g.Expr = fmt.Sprintf("%s (%d components)", what, len(parts))
	g.Parts = parts
	g.NDecl = len(c.decls)
	c.obls = append(c.obls, g)
}

// loopFrameHavoc replaces the loop-head havoc of every component that the function may only change at specific
// locations by "entry component updated at those locations with fresh values": the frame invariant is built into the
// state. It is checked on loop entry (inv-init) and on every back edge (inv-pres) for ALL references.
func (c *Ctx) loopFrameHavoc(ct *Contract, names calleeNames, args []Val, before, st *State, reach string, pos token.Pos, ordinal int, allocKeys map[string]bool) {
	c.frameLocals = true
	defer func() { c.frameLocals = false }()
	// inv-init: the state reaching the loop satisfies the frame
	if !c.skipFrameInit {
		c.groupedFrame("inv-init", fmt.Sprintf("loop%d/frame:", ordinal), ct, names, args, before, reach, pos, "frame holds on loop entry", true)
	}
	items, ok := c.frameItems(ct, names, args, st)
	if !ok {
		return
	}
	for _, it := range items {
		if it.whole || it.post == it.pre {
			continue
		}
		// was this component havocked by the loop head? (a fresh symbol, different from the state before the havoc)
		var was string
		if it.isMem {
			was = before.mem[it.key]
		} else {
			was = before.heap[it.key]
		}
		if was == it.post {
			continue
		}
		// objects of this component's type are allocated inside the loop: their fields legitimately change, so the
		// built-in frame would be wrong for them; the component simply stays havocked
		skip := false
		for ak := range allocKeys {
			if keyHasPrefix(it.key, ak) {
				skip = true
			}
		}
		if skip {
			c.notes["loop-frame-skipped(alloc in loop): "+it.key]++
			continue
		}
		srt := st.hsort[it.key]
		if it.isMem {
			srt = st.hsort["M:"+it.key]
		}
		inner := strings.TrimSuffix(strings.TrimPrefix(srt, "(Array Int "), ")")
		term := it.pre
		for _, l := range it.locs {
			term = fmt.Sprintf("(store %s %s %s)", term, l, c.fresh("lh", inner))
		}
		term = c.name("lf", srt, term)
		if it.isMem {
			st.mem[it.key] = term
		} else {
			st.heap[it.key] = term
		}
	}
}

// verifyFn runs Houdini (if loops) and solves every obligation.
func (w *World) verifyFn(fn *ssa.Function, sv *Solver, tier string) *FnResult {
	res := &FnResult{Name: fnName(fn), Notes: map[string]int{}, Unknown: map[string]int{}, Pos: w.fset.Position(fn.Pos())}
	ct := w.contracts[res.Name]
	res.HasContract = ct != nil
	if ct != nil && ct.Trusted != "" {
		res.Assumed = true
		return res
	}
	dropped := map[string]bool{}
	hcount := map[string]bool{}
	useH := !noLoops(fn)
	var c *Ctx
	for iter := 0; ; iter++ {
		var unsup string
		var stale []string
		c, unsup, stale = w.genVCs(fn, useH, dropped, hcount, tier)
		res.Stale = stale
		if unsup != "" {
			res.Unsupported = unsup
			res.Notes = c.notes
			return res
		}
		if !useH || iter > 12 {
			break
		}
		var hs []Obl
		for _, o := range c.obls {
			if o.Kind == "H-init" || o.Kind == "H-pres" {
				hs = append(hs, o)
			}
		}
		if len(hs) == 0 {
			break
		}
		rs := sv.solveAll(c, hs, 2, false)
		nd := 0
		for _, r := range rs {
			if r.Status != "unsat" && !dropped[r.HId] {
				dropped[r.HId] = true
				nd++
			}
		}
		if nd == 0 {
			break
		}
	}
	res.ctx = c
	res.Notes = c.notes
	res.Quantified = c.quantified
	res.Inputs = c.inputs
	res.AllocSites = c.allocSites
	for id := range hcount {
		res.HTotal++
		if !dropped[id] {
			res.HKept++
		}
	}
	for d := range c.depsUsed {
		res.Deps = append(res.Deps, d)
	}
	sort.Strings(res.Deps)
	for d := range c.callees {
		res.Callees = append(res.Callees, d)
	}
	sort.Strings(res.Callees)
	res.Unknown = c.unknownCalls
	res.Loops = c.notes["loops"]
	var real []Obl
	var autos []Obl
	for _, o := range c.obls {
		switch o.Kind {
		case "H-init", "H-pres":
		case "variant-auto":
			autos = append(autos, o)
		default:
			real = append(real, o)
		}
	}
	// dead-edge diagnostic: a CFG edge whose path condition is unsatisfiable together with ALL assumptions collected for
	// the function is never explored - every obligation behind it holds vacuously. Some are legitimately dead
	// (defensive checks, errors the assumed dependency contracts exclude); each is listed so that an over-strong
	// assumption (the classic vacuity hole) is visible. Checked on request (sweep -dead, thorough tier).
	if w.deadEdges {
		if sv.DumpDir != "" {
			var sb strings.Builder
			sb.WriteString(prelude)
			for _, d := range c.decls {
				sb.WriteString(d + "\n")
			}
			for _, a := range c.asms {
				sb.WriteString("(assert " + a + ")\n")
			}
			sb.WriteString("(check-sat)\n")
			os.MkdirAll(sv.DumpDir, 0o755)
			os.WriteFile(sv.DumpDir+"/HYP_"+sanitizeSym(fnName(fn))+".smt2", []byte(sb.String()), 0o644)
		}
		seen := map[string]bool{}
		for _, e := range c.edgeConds {
			if e.cond == "true" || seen[e.cond] {
				continue
			}
			seen[e.cond] = true
			if st := sv.checkSat(c, len(c.decls), len(c.asms), e.cond, 5); st == "unsat" {
				at := e.at
				if !at.IsValid() {
					for _, bi := range []int{e.to, e.from} {
						for _, ins := range fn.Blocks[bi].Instrs {
							if ins.Pos().IsValid() {
								at = c.fset.Position(ins.Pos())
								break
							}
						}
						if at.IsValid() {
							break
						}
					}
				}
				res.DeadEdges = append(res.DeadEdges, fmt.Sprintf("%s %s:%d (block %d %s -> %d %s)", fnName(fn), shortFile(at.Filename), at.Line, e.from, fn.Blocks[e.from].Comment, e.to, fn.Blocks[e.to].Comment))
			}
		}
	}
	timeout := sv.Timeout
	if w.onlyProp != "" {
		// obligations tagged for other properties only are decided by those properties' checks (every tagged clause is an
		// obligation of each property it names); here they are hypotheses of the continuation, not goals
		var keep []Obl
		for _, o := range real {
			if len(o.Props) > 0 && !hasProp(o.Props, w.onlyProp) {
				res.Skipped++
				continue
			}
			keep = append(keep, o)
		}
		real = keep
	}
	res.Obls = sv.solveAll(c, real, timeout, true)
	// automatically inferred termination measures: a candidate must decrease on every back edge of its loop
	if len(autos) > 0 {
		rs := sv.solveAll(c, autos, timeout, false)
		byLoop := map[string]map[string]bool{} // loop -> measure -> ok
		first := map[string]OblResult{}
		for _, r := range rs {
			p := strings.SplitN(r.HId, "|", 2)
			if byLoop[p[0]] == nil {
				byLoop[p[0]] = map[string]bool{}
				first[p[0]] = r
			}
			if _, seen := byLoop[p[0]][p[1]]; !seen {
				byLoop[p[0]][p[1]] = true
			}
			if r.Status != "unsat" {
				byLoop[p[0]][p[1]] = false
			}
		}
		var loops []string
		for l := range byLoop {
			loops = append(loops, l)
		}
		sort.Strings(loops)
		for _, l := range loops {
			okM := ""
			var ms []string
			for m, ok := range byLoop[l] {
				ms = append(ms, m)
				if ok && (okM == "" || m < okM) {
					okM = m
				}
			}
			sort.Strings(ms)
			r := first[l]
			r.Kind = "variant"
			r.Name = fmt.Sprintf("%s#variant:%s@auto", res.Name, l)
			if okM != "" {
				r.Status = "unsat"
				r.Expr = "inferred: decreases " + okM
				res.InferredVariants = append(res.InferredVariants, l+": "+okM)
			} else {
				r.Status = "sat"
				r.Model = nil
				r.Expr = "no inferred termination measure decreases on every back edge (tried: " + strings.Join(ms, "; ") + ")"
				r.Output = "candidates failed"
			}
			res.Obls = append(res.Obls, r)
		}
	}
	return res
}

// splitAnd splits a top-level SMT conjunction "(and a b c)" into its conjuncts.
// splitDeep flattens nested conjunctions and distributes implications over them: (=> g (and A B)) gives (=> g A) and
// (=> g B). The conjunction of the result is equivalent to f; each member becomes an obligation of its own.
func splitDeep(f string) []string {
	if strings.HasPrefix(f, "(and ") {
		parts := splitAnd(f)
		if len(parts) == 1 {
			return parts
		}
		var out []string
		for _, p := range parts {
			out = append(out, splitDeep(p)...)
		}
		return out
	}
	if strings.HasPrefix(f, "(=> ") && strings.HasSuffix(f, ")") {
		kids, _ := sexprChildren(f, 0)
		if len(kids) == 3 {
			g := f[kids[1][0]:kids[1][1]]
			body := splitDeep(f[kids[2][0]:kids[2][1]])
			if len(body) > 1 {
				var out []string
				for _, b := range body {
					out = append(out, "(=> "+g+" "+b+")")
				}
				return out
			}
		}
	}
	return []string{f}
}

func splitAnd(f string) []string {
	if !strings.HasPrefix(f, "(and ") || !strings.HasSuffix(f, ")") {
		return []string{f}
	}
	body := f[5 : len(f)-1]
	var out []string
	d := 0
	start := 0
	for i := 0; i < len(body); i++ {
		switch body[i] {
		case '(':
			d++
		case ')':
			d--
			if d < 0 {
				return []string{f}
			}
		case ' ':
			if d == 0 {
				if i > start {
					out = append(out, body[start:i])
				}
				start = i + 1
			}
		}
	}
	if start < len(body) {
		out = append(out, body[start:])
	}
	if d != 0 {
		return []string{f}
	}
	return out
}
