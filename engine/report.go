// report.go - the `check` command: per-property function sets, vacuity guards, known findings, evidence.
package main

import (
	"encoding/json"
	"flag"
	"fmt"
	"os"
	"path/filepath"
	"regexp"
	"sort"
	"strconv"
	"strings"
	"sync"
	"time"

	"golang.org/x/tools/go/ssa"
)

type Finding struct {
	Property   string `json:"property"`
	Obligation string `json:"obligation"`
	Status     string `json:"status"` // open | fixed
	Commit     string `json:"commit,omitempty"`
	What       string `json:"what"`
	Witness    string `json:"witness,omitempty"`
}

type findingsFile struct {
	Findings []Finding `json:"findings"`
}

func loadFindings(path string) []Finding {
	data, err := os.ReadFile(path)
	if err != nil {
		return nil
	}
	var ff findingsFile
	if err := json.Unmarshal(data, &ff); err != nil {
		fmt.Println("ERROR known_findings.json:", err)
		os.Exit(2)
	}
	return ff.Findings
}

func hasProp(ps []string, p string) bool {
	for _, x := range ps {
		if x == p {
			return true
		}
	}
	return false
}

// countsFor decides whether obligation o (of a function in the set) is an obligation of property p.
func countsFor(cfg *PropCfg, o *Obl, taggedFn bool) bool {
	if len(o.Props) > 0 {
		return hasProp(o.Props, cfg.ID)
	}
	switch {
	case safetyKinds[o.Kind]:
		return cfg.Safety
	case o.Kind == "variant":
		return cfg.Variant
	case o.Kind == "requires":
		return cfg.Safety || taggedFn
	default: // ensures, inv-init, inv-pres, frame, lemma
		return taggedFn
	}
}

func cmdCheck(args []string) {
	fs := flag.NewFlagSet("check", flag.ExitOnError)
	repo := fs.String("repo", "/repo", "repository")
	verif := fs.String("verif", "/verif", "verif dir")
	prop := fs.String("prop", "", "property id")
	tier := fs.String("tier", "quick", "quick|thorough")
	noReplay := fs.Bool("noreplay", false, "skip replay")
	outDir := fs.String("out", "", "directory for evidence/ and replays/ (default: the verif dir); use a scratch dir when checking a modified tree")
	verbose := fs.Bool("v", false, "verbose")
	fs.Parse(args)
	if t := os.Getenv("VERIF_TIER"); t == "quick" || t == "thorough" {
		if !isFlagSet(fs, "tier") {
			*tier = t
		}
	}
	seed := 0
	if s := os.Getenv("VERIF_SEED"); s != "" {
		seed, _ = strconv.Atoi(s)
	}
	cfg := propCfgs[*prop]
	if cfg == nil {
		fmt.Println("ERROR unknown property", *prop)
		os.Exit(2)
	}
	t0 := time.Now()
	w := mustWorld(*repo, filepath.Join(*verif, "specs"))
	w.onlyProp = cfg.ID
	w.deadEdges = *tier == "thorough" // vacuity diagnostic: list the CFG edges that are infeasible under all assumptions
	// per-query limits: generous, because a limit only matters for the few slow queries and a loaded machine must not
	// turn a proof into an alarm
	timeout := 40
	if *tier == "thorough" {
		timeout = 150
	}
	sv := newSolver(timeout, 15)
	sv.Cross = *tier == "thorough"

	// ---- function set ----
	inSet := map[*ssa.Function]bool{}
	tagged := map[*ssa.Function]bool{}
	if cfg.Tagged {
		for nm, ct := range w.contracts {
			if hasProp(ct.Props, cfg.ID) {
				if fn := w.fns[nm]; fn != nil {
					if len(cfg.Scope) > 0 {
						in := false
						for _, sc := range cfg.Scope {
							if matched(sc, nm) {
								in = true
							}
						}
						if !in {
							continue
						}
					}
					inSet[fn] = true
					tagged[fn] = true
				}
			}
		}
	}
	var transparent []string
	var outOfScope []string
	if cfg.Safety || cfg.Variant {
		rootSet := map[*ssa.Function]bool{}
		for _, fn := range w.fnList {
			for _, r := range cfg.Roots {
				if matched(r, fnName(fn)) {
					rootSet[fn] = true
				}
			}
		}
		for _, fn := range w.reachable(cfg.Roots) {
			if hasGenFile(w, fn) && cfg.ID != "C16" {
				continue
			}
			// loop-free leaf helpers without a contract are executed transparently at every call site:
			// their internal checks are obligations of their callers, not of the helper in isolation
			if len(cfg.Scope) > 0 {
				in := false
				for _, sc := range cfg.Scope {
					if matched(sc, fnName(fn)) {
						in = true
					}
				}
				if !in {
					outOfScope = append(outOfScope, fnName(fn))
					continue
				}
			}
			if fn.Parent() != nil {
				// anonymous functions are executed symbolically where their parent runs or defers them
				transparent = append(transparent, fnName(fn)+" (closure, verified with its parent)")
				continue
			}
			if !rootSet[fn] && w.contracts[fnName(fn)] == nil && w.transparentEligible(fn) && !depCalled[fn] {
				transparent = append(transparent, fnName(fn))
				continue
			}
			inSet[fn] = true
		}
	}
	results := map[string]*FnResult{}
	frames := w.recoverFrames()
	assumedElsewhere := map[string]string{}
	// closure over the contracts relied upon
	for round := 0; round < 8; round++ {
		var todo []*ssa.Function
		for fn := range inSet {
			if results[fnName(fn)] == nil {
				todo = append(todo, fn)
			}
		}
		if len(todo) == 0 {
			break
		}
		sort.Slice(todo, func(i, j int) bool { return fnName(todo[i]) < fnName(todo[j]) })
		for i, r := range w.verifyMany(todo, sv, *tier) {
			results[fnName(todo[i])] = r
			for _, cal := range r.Callees {
				if fn := w.fns[cal]; fn != nil && !inSet[fn] {
					if ct := w.contracts[cal]; cfg.StopAtTagged && ct != nil && !hasProp(ct.Props, cfg.ID) {
						assumedElsewhere[cal] = strings.Join(ct.Props, " ")
						continue
					}
					inSet[fn] = true
					if tagged[todo[i]] {
						tagged[fn] = true // a contract the property's proof relies on
					}
				}
			}
		}
	}
	// supporting contracts (relied upon by tagged functions) count as tagged
	changed := true
	for changed {
		changed = false
		for fn := range tagged {
			if results[fnName(fn)] == nil {
				continue
			}
			for _, cal := range results[fnName(fn)].Callees {
				if _, skip := assumedElsewhere[cal]; skip {
					continue
				}
				if cf := w.fns[cal]; cf != nil && !tagged[cf] {
					tagged[cf] = true
					changed = true
				}
			}
		}
	}
	var names []string
	for fn := range inSet {
		names = append(names, fnName(fn))
	}
	sort.Strings(names)

	// ---- lemmas ----
	var lemmaRes []OblResult
	for _, lm := range w.lemmas {
		if hasProp(lm.Props, cfg.ID) {
			lemmaRes = append(lemmaRes, w.proveLemma(lm, sv, timeout))
		}
	}

	// ---- recover-frame classification (C01) ----
	underFrameOnly := map[string]bool{}
	if cfg.ID == "C01" {
		underFrameOnly = w.framedOnly(cfg.Roots, frames)
	}

	// ---- collect ----
	type item struct {
		fn  *FnResult
		o   *OblResult
	}
	var items []item
	var unsupported []string
	var toolErrors []string
	var structural []DFResult
	{
		var ub []string
		for nm := range w.unbound {
			ub = append(ub, nm)
		}
		sort.Strings(ub)
		for _, nm := range ub {
			ct := w.unbound[nm]
			if hasProp(ct.Props, cfg.ID) || len(ct.Props) == 0 {
				structural = append(structural, DFResult{Name: nm + "#contract-binds", OK: false, Detail: "the function under contract does not exist (any more); every clause of its contract is undecided (" + ct.Loc + ")", At: ct.Loc})
			}
		}
	}
	perFn := map[string][2]int{}
	converted := 0
	for _, nm := range names {
		r := results[nm]
		if r.Assumed {
			continue
		}
		if strings.HasPrefix(r.Unsupported, "ENGINE CRASH") {
			toolErrors = append(toolErrors, nm+": "+strings.SplitN(r.Unsupported, "\n", 2)[0])
			continue
		}
		if len(r.Stale) > 0 {
			// a clause refers to something that no longer exists: what it stated is undecided - a failed structural obligation
			structural = append(structural, DFResult{Name: nm + "#contract-stale", OK: false, Detail: "contract clauses refer to names that do not exist (any more): " + strings.Join(r.Stale, "; "), At: ""})
			continue
		}
		if r.Unsupported != "" {
			unsupported = append(unsupported, nm+": "+r.Unsupported)
			continue
		}
		for i := range r.Obls {
			o := &r.Obls[i]
			if !countsFor(cfg, &o.Obl, tagged[w.fns[nm]]) {
				continue
			}
			if cfg.ID == "C01" && underFrameOnly[nm] && safetyKinds[o.Kind] && o.Kind != "panic" {
				converted++
				continue
			}
			items = append(items, item{r, o})
			pf := perFn[nm]
			pf[0]++
			if o.Status == "unsat" {
				pf[1]++
			}
			perFn[nm] = pf
		}
	}
	lemmaFn := &FnResult{Name: "lemmas"}
	for i := range lemmaRes {
		items = append(items, item{lemmaFn, &lemmaRes[i]})
	}

	// ---- second chance for obligations that ran out of time (never for refuted ones): a loaded machine must not turn a
	// proof into an alarm. Re-solved a few at a time, with three times the limit, after everything else has finished.
	{
		var retry []item
		for _, it := range items {
			if it.o.Status != "unsat" && it.o.Status != "sat" && it.fn.ctx != nil && it.o.Kind != "lemma" {
				retry = append(retry, it)
			}
		}
		if len(retry) > 0 && len(retry) <= 24 {
			sem := make(chan struct{}, 3)
			var wg sync.WaitGroup
			for _, it := range retry {
				it := it
				wg.Add(1)
				sem <- struct{}{}
				go func() {
					defer wg.Done()
					defer func() { <-sem }()
					r2 := sv.solveOne(it.fn.ctx, it.o.Obl, timeout*3, true)
					if r2.Status == "unsat" || r2.Status == "sat" {
						r2.Output = "second attempt with " + fmt.Sprint(timeout*3) + "s: " + r2.Output
						r2.Ms += it.o.Ms
						*it.o = r2
					}
				}()
			}
			wg.Wait()
			for _, it := range retry {
				pf := perFn[it.fn.Name]
				if it.o.Status == "unsat" {
					pf[1]++
					perFn[it.fn.Name] = pf
				}
			}
		}
	}

	// ---- vacuity guards ----
	vac := map[string]interface{}{}
	nPre := 0
	for _, nm := range names {
		r := results[nm]
		if r.ctx == nil || r.ctx.contract == nil || len(r.ctx.contract.Requires) == 0 {
			continue
		}
		nPre++
		st := sv.checkSat(r.ctx, r.ctx.nPreDecl, r.ctx.nPre, "", timeout)
		if st != "sat" {
			toolErrors = append(toolErrors, fmt.Sprintf("vacuity: precondition of %s is not satisfiable (%s)", nm, st))
		}
	}
	vac["preconditions_checked_sat"] = nPre
	if len(items) == 0 && len(cfg.Passes) == 0 {
		toolErrors = append(toolErrors, "vacuity: zero obligations generated for "+cfg.ID)
	}
	// planted false obligation must be refuted by the solver
	if len(names) > 0 {
		for _, nm := range names {
			if r := results[nm]; r.ctx != nil {
				st := sv.checkSat(r.ctx, r.ctx.nPreDecl, r.ctx.nPre, "(not false)", timeout)
				vac["planted_false_obligation"] = st + " (must be sat = not provable)"
				if st != "sat" {
					toolErrors = append(toolErrors, "vacuity: planted false obligation was not refuted: "+st)
				}
				break
			}
		}
	}
	// path vacuity (thorough): discharged obligations whose path condition is unsatisfiable
	vacuous := 0
	if *tier == "thorough" {
		for _, it := range items {
			if it.o.Status == "unsat" && it.fn.ctx != nil && it.o.Reach != "true" {
				if st := sv.checkSat(it.fn.ctx, it.o.NDecl, it.o.NAsm, it.o.Reach, 5); st == "unsat" {
					it.o.Vacuous = true
					vacuous++
				}
			}
		}
		vac["unreachable_obligations"] = vacuous
	}

	// ---- dataflow passes ----
	var dfObls []DFResult
	for _, p := range cfg.Passes {
		dfObls = append(dfObls, w.runPass(p, cfg, inSet)...)
	}
	dfObls = append(dfObls, structural...)
	if len(items) == 0 && len(dfObls) == 0 {
		toolErrors = append(toolErrors, "vacuity: zero obligations generated for "+cfg.ID)
	}

	// ---- findings filter, replay, output ----
	findings := loadFindings(filepath.Join(*verif, "known_findings.json"))
	open := map[string]Finding{}
	for _, f := range findings {
		if f.Property == cfg.ID && f.Status == "open" {
			open[f.Obligation] = f
		}
	}
	if *outDir == "" {
		*outDir = *verif
	}
	replayDir := filepath.Join(*outDir, "replays", cfg.ID)
	os.RemoveAll(replayDir)
	total, discharged, violations, known := 0, 0, 0, 0
	byBackend := map[string]int{}
	samples := []map[string]interface{}{}
	var slow []map[string]interface{}
	crossDisagree := 0
	notCross := 0
	var failedNames []string
	knownNames := []string{}
	var viol []item
	sort.SliceStable(items, func(i, j int) bool { return items[i].o.Name < items[j].o.Name })
	for _, it := range items {
		o := it.o
		total++
		if o.Status == "unsat" {
			discharged++
			byBackend[o.Solver]++
			if sv.Cross && o.Solver != "trivial" {
				if strings.HasSuffix(o.Cross, ":sat") {
					crossDisagree++
					toolErrors = append(toolErrors, "solver disagreement on "+o.Name+": "+o.Solver+" unsat, "+o.Cross)
				} else if !strings.HasSuffix(o.Cross, ":unsat") {
					notCross++
				}
			}
			if len(samples) < 8 && (o.Kind == "ensures" || o.Kind == "requires" || len(samples) < 4) && o.Solver != "trivial" {
				samples = append(samples, map[string]interface{}{"obligation": o.Name, "guards": o.Expr, "at": fmt.Sprintf("%s:%d", shortFile(o.Pos.Filename), o.Pos.Line), "solver": o.Solver, "ms": o.Ms})
			}
			if o.Ms > 1500 {
				slow = append(slow, map[string]interface{}{"obligation": o.Name, "ms": o.Ms, "solver": o.Solver})
			}
			continue
		}
		if kf, ok := open[o.Name]; ok {
			known++
			knownNames = append(knownNames, o.Name)
			fmt.Printf("KNOWN-FINDING: property=%s %s [%s]\n", cfg.ID, kf.What, o.Name)
			delete(open, o.Name)
			continue
		}
		violations++
		failedNames = append(failedNames, o.Name)
		viol = append(viol, it)
	}
	// replay (at most maxReplays counterexamples are executed against the real code, in parallel)
	const maxReplays = 8
	outs := make([]replayOut, len(viol))
	var rwg sync.WaitGroup
	for i, it := range viol {
		i, it := i, it
		skip := *noReplay || i >= maxReplays
		rwg.Add(1)
		go func() {
			defer rwg.Done()
			outs[i] = writeReplay(w, replayDir, cfg.ID, it.fn, it.o, skip)
		}()
	}
	rwg.Wait()
	for i, it := range viol {
		o := it.o
		line := fmt.Sprintf("VIOLATION property=%s replay=%s", cfg.ID, outs[i].file)
		if !outs[i].replayed {
			line += " no-failing-input-found"
		}
		fmt.Println(line)
		if *verbose {
			fmt.Printf("   %s [%s] %s @%s:%d model=%s\n", o.Name, o.Status, o.Expr, shortFile(o.Pos.Filename), o.Pos.Line, compactModel(o.Model))
		}
	}
	dfSamples := 0
	for _, d := range dfObls {
		total++
		if d.OK {
			discharged++
			byBackend["dataflow"]++
			if dfSamples < 6 && d.Detail != "" {
				dfSamples++
				samples = append(samples, map[string]interface{}{"obligation": d.Name, "guards": d.Detail, "at": d.At, "solver": "dataflow", "ms": 0})
			}
			continue
		}
		if kf, ok := open[d.Name]; ok {
			known++
			knownNames = append(knownNames, d.Name)
			fmt.Printf("KNOWN-FINDING: property=%s %s [%s]\n", cfg.ID, kf.What, d.Name)
			delete(open, d.Name)
			continue
		}
		violations++
		failedNames = append(failedNames, d.Name)
		os.MkdirAll(replayDir, 0o755)
		fp := filepath.Join(replayDir, sanitizeSym(d.Name)+".json")
		js, _ := json.MarshalIndent(map[string]interface{}{"property": cfg.ID, "obligation": d.Name, "backend": "dataflow", "status": "no-failing-input-found", "detail": d.Detail, "at": d.At}, "", " ")
		os.WriteFile(fp, js, 0o644)
		fmt.Printf("VIOLATION property=%s replay=%s no-failing-input-found\n", cfg.ID, fp)
	}
	// open findings that no longer fail are stale entries (reported, not fatal in quick)
	var stale []string
	for nm := range open {
		stale = append(stale, nm)
	}
	sort.Strings(stale)
	for _, s := range stale {
		fmt.Printf("NOTE: known finding %s no longer fails (stale entry)\n", s)
	}
	sort.Slice(slow, func(i, j int) bool { return slow[i]["ms"].(int64) > slow[j]["ms"].(int64) })
	if len(slow) > 10 {
		slow = slow[:10]
	}

	// ---- evidence ----
	var fnsUnder []map[string]interface{}
	assumptions := map[string]bool{}
	if len(assumedElsewhere) > 0 {
		var l []string
		for k, v := range assumedElsewhere {
			l = append(l, k+" ["+v+"]")
		}
		sort.Strings(l)
		assumptions[fmt.Sprintf("%d contracts relied upon do not list this property: they are assumed here and verified by the checks of the properties they list: %s", len(l), strings.Join(l, ", "))] = true
	}
	var unverified []string
	hk, ht := 0, 0
	nContract := 0
	skippedTotal := 0
	var deadEdges []string
	for _, nm := range names {
		skippedTotal += results[nm].Skipped
		deadEdges = append(deadEdges, results[nm].DeadEdges...)
	}
	if skippedTotal > 0 {
		assumptions[fmt.Sprintf("%d contract clauses of the functions above are tagged for other properties only: here they are hypotheses (assumed after their program point); each is an obligation of the check of every property it is tagged with", skippedTotal)] = true
	}
	for _, nm := range names {
		r := results[nm]
		e := map[string]interface{}{"function": nm}
		switch {
		case r.Assumed:
			e["status"] = "assumed (trusted contract, not verified)"
			unverified = append(unverified, nm)
		case r.Unsupported != "":
			e["status"] = "outside-subset: " + strings.SplitN(r.Unsupported, "\n", 2)[0]
			unverified = append(unverified, nm)
		default:
			pf := perFn[nm]
			e["obligations"] = pf[0]
			e["discharged"] = pf[1]
			if r.HasContract {
				e["contract"] = true
				nContract++
			} else {
				e["contract"] = false
			}
			if r.HTotal > 0 {
				e["houdini"] = fmt.Sprintf("%d/%d candidates kept", r.HKept, r.HTotal)
			}
			if len(r.InferredVariants) > 0 {
				e["inferred_variants"] = r.InferredVariants
			}
			if len(r.Unknown) > 0 {
				var us []string
				for k := range r.Unknown {
					us = append(us, k)
				}
				sort.Strings(us)
				e["havocking_calls_without_contract"] = us
			}
		}
		hk += r.HKept
		ht += r.HTotal
		for _, d := range r.Deps {
			assumptions[d] = true
		}
		fnsUnder = append(fnsUnder, e)
	}
	var asl []string
	for a := range assumptions {
		asl = append(asl, a)
	}
	sort.Strings(asl)
	asl = append(asl,
		"GOARCH=amd64: int/uint/uintptr are 64-bit bit-vectors (wrap-around exact; no mathematical-integer abstraction)",
		"go/packages+go/types+go/ssa (x/tools v0.29.0, NaiveForm) give the semantics of the source; the Go compiler and runtime are not in the loop",
		"interface-typed inputs do not hold typed-nil pointers; readers passed to entry points are non-nil",
		"a slice obtained from bufio Peek is not used after a later fill of the same reader (stale-view use is not modelled)",
		"float arithmetic results are uninterpreted (comparisons and moves exact); stack depth and out-of-memory are not modelled",
		"panics inside dependencies called within their documented preconditions are not modelled")
	var solverTime int64
	bs := map[string]interface{}{}
	for n, s := range sv.Stats {
		solverTime += s.Ms
		bs[n] = map[string]interface{}{"unsat": s.Unsat, "sat": s.Sat, "unknown_or_timeout": s.Unknown, "seconds": float64(s.Ms) / 1000}
	}
	cov := map[string]interface{}{
		"obligations":   total - known, // obligations claimed as proved; open known findings are listed separately, never counted as discharged
		"discharged":    discharged,
		"obligations_generated": total,
		"known_finding_obligations": knownNames,
		"checker_cmd":   fmt.Sprintf("/verif/bin/check %s %s   (vcgo: go/ssa -> SMT-LIB; z3-new 5.1.0 | cvc5 1.0.3 | z3 4.8.12, %ds per query)", cfg.ID, *tier, timeout),
		"trusted_base":  []string{"vcgo (SSA->SMT translation, contract resolver, Houdini, dataflow passes)", "go/packages, go/types, go/ssa x/tools v0.29.0", "z3 5.1.0, z3 4.8.12, cvc5 1.0.3", "assumed dependency contracts /verif/specs/deps.spec (those used are listed under assumptions)"},
		"samples":       samples,
		"by_backend":    byBackend,
		"solver_stats":  bs,
		"solver_seconds": float64(solverTime) / 1000,
		"functions_under_contract": nContract,
		"functions_in_set": len(names),
		"functions":     fnsUnder,
		"unverified_functions": unverified,
		"known_findings_open": known,
		"failed_obligations": failedNames,
		"vacuity":       vac,
		"houdini":       fmt.Sprintf("%d of %d candidate invariants kept", hk, ht),
		"slowest":       slow,
		"panic_converted_under_recover_frames": converted,
		"numeric_mode":  "bv (all functions)",
		"lemmas":        len(lemmaRes),
		"dataflow_obligations": len(dfObls),
		"transparent_helpers_checked_at_call_sites": transparent,
		"reachable_but_outside_claimed_scope": outOfScope,
	}
	if w.deadEdges {
		sort.Strings(deadEdges)
		vac["infeasible_cfg_edges_under_all_assumptions"] = deadEdges
		vac["infeasible_cfg_edges_note"] = "thorough tier: every CFG edge of every verified function was tested for reachability under all collected assumptions; the listed edges are dead (errors excluded by assumed dependency contracts, shadowed switch cases, constant flags) - an unexpected entry here means an over-strong assumption"
	}
	if sv.Cross {
		cov["cross_checked_by_second_solver"] = discharged - notCross
		cov["not_cross_checked"] = notCross
	}
	level := cfg.Level
	if level == "other" {
		cov["explanation"] = cfg.Explain
	}
	ev := map[string]interface{}{
		"property_id": cfg.ID, "tier": *tier, "seed": seed, "level": level, "coverage": cov,
		"assumptions": asl, "wall_s": time.Since(t0).Seconds(), "violations": violations,
	}
	if len(toolErrors) == 0 {
		os.MkdirAll(filepath.Join(*outDir, "evidence"), 0o755)
		js, _ := json.MarshalIndent(ev, "", " ")
		os.WriteFile(filepath.Join(*outDir, "evidence", cfg.ID+".json"), js, 0o644)
	}
	fmt.Printf("SUMMARY property=%s tier=%s functions=%d obligations=%d discharged=%d known=%d violations=%d outside-subset=%d wall=%.1fs\n",
		cfg.ID, *tier, len(names), total, discharged, known, violations, len(unsupported), time.Since(t0).Seconds())
	if *verbose {
		for _, u := range unsupported {
			fmt.Println("   outside-subset:", u)
		}
	}
	for _, e := range toolErrors {
		fmt.Println("ERROR", e)
	}
	if len(toolErrors) > 0 {
		os.Exit(2)
	}
	if violations > 0 {
		os.Exit(1)
	}
}

func isFlagSet(fs *flag.FlagSet, name string) bool {
	set := false
	fs.Visit(func(f *flag.Flag) {
		if f.Name == name {
			set = true
		}
	})
	return set
}

// framedOnly: functions reachable from the roots only through a function that installs a recover frame.
func (w *World) framedOnly(roots []string, frames map[*ssa.Function]bool) map[string]bool {
	// reachable without passing through a frame function's body
	all := w.reachable(roots)
	var unframedRoots []*ssa.Function
	seen := map[*ssa.Function]bool{}
	var work []*ssa.Function
	rs := w.reachable(roots) // same set; we redo traversal but stop at frames
	_ = rs
	rootSet := map[*ssa.Function]bool{}
	for _, fn := range w.fnList {
		for _, r := range roots {
			if matched(r, fnName(fn)) {
				rootSet[fn] = true
			}
		}
	}
	for fn := range rootSet {
		unframedRoots = append(unframedRoots, fn)
	}
	for _, fn := range unframedRoots {
		if !seen[fn] {
			seen[fn] = true
			work = append(work, fn)
		}
	}
	for len(work) > 0 {
		fn := work[len(work)-1]
		work = work[:len(work)-1]
		if frames[fn] {
			continue // callees of a frame function are beneath the frame
		}
		for _, cal := range w.moduleCallees(fn) {
			if !seen[cal] {
				seen[cal] = true
				work = append(work, cal)
			}
		}
	}
	out := map[string]bool{}
	for _, fn := range all {
		if !seen[fn] || frames[fn] {
			out[fnName(fn)] = true
		}
	}
	return out
}

var reCache = map[string]*regexp.Regexp{}

func matched(re, s string) bool {
	r, ok := reCache[re]
	if !ok {
		r = regexp.MustCompile(re)
		reCache[re] = r
	}
	return r.MatchString(s)
}
