// lemma.go - closed lemmas (about spec functions or about real code executed in specification mode).
package main

import (
	"fmt"
	"go/ast"
	"go/parser"
	"go/types"
	"strings"
)

// typeFromExpr resolves a small subset of Go type syntax used for lemma variables.
func (c *Ctx) typeFromExpr(env *CEnv, e ast.Expr) types.Type {
	switch x := e.(type) {
	case *ast.Ident:
		if t, ok := basicTypes[x.Name]; ok {
			return t
		}
	case *ast.ArrayType:
		if x.Len == nil {
			return types.NewSlice(c.typeFromExpr(env, x.Elt))
		}
	case *ast.StarExpr:
		return types.NewPointer(c.typeFromExpr(env, x.X))
	case *ast.SelectorExpr:
		v := c.evalExprOrType(env, x)
		if v.Ty != nil {
			return v.Ty
		}
	}
	cerr("unsupported lemma variable type")
	return nil
}

func (w *World) proveLemma(lm *Lemma, sv *Solver, timeout int) (res OblResult) {
	c := w.newCtx(nil)
	name := "lemma:" + lm.Name
	res = OblResult{Obl: Obl{Name: name, Kind: "lemma", Props: lm.Props, Expr: lm.Text}}
	defer func() {
		if r := recover(); r != nil {
			switch x := r.(type) {
			case contractError:
				res.Status, res.Output = "error", "contract error: "+x.msg
			case unsupported:
				res.Status, res.Output = "error", "outside subset: "+x.why
			default:
				panic(r)
			}
		}
	}()
	st := newState()
	env := &CEnv{c: c, st: st, old: st, bound: map[string]CVal{}}
	if lm.Vars != "" {
		fe, err := parser.ParseExpr("func(" + lm.Vars + "){}")
		if err != nil {
			cerr("lemma variables: %v", err)
		}
		for _, fld := range fe.(*ast.FuncLit).Type.Params.List {
			t := c.typeFromExpr(env, fld.Type)
			for _, nm := range fld.Names {
				v := c.freshVal(t, "lv_"+nm.Name)
				env.bound[nm.Name] = CVal{V: v, T: t}
				c.inputs = append(c.inputs, inputVar{Name: nm.Name, Val: v, T: t})
			}
		}
	}
	// instances of other lemmas (proved in the same run) are assumed
	for _, u := range lm.Uses {
		c.assume("true", c.lemmaInstance(env, u, lm))
	}
	f := c.evalBool(env, lm.Expr, lm.Text)
	o := Obl{Name: name, Kind: "lemma", Props: lm.Props, Reach: "true", Cond: f, NDecl: len(c.decls), NAsm: len(c.asms), Expr: lm.Text, Fn: "lemma"}
	pos := strings.SplitN(lm.Loc, ":", 2)
	o.Pos.Filename = pos[0]
	if len(pos) > 1 {
		fmt.Sscanf(pos[1], "%d", &o.Pos.Line)
	}
	res = sv.solveOne(c, o, timeout, true)
	return res
}

// lemmaInstance evaluates `lemmaName(e1, ..)`: the named lemma's statement with its variables bound to the arguments
// (evaluated in env). The lemma itself is proved in the same run (every lemma is an obligation of the properties it is
// tagged with).
func (c *Ctx) lemmaInstance(env *CEnv, u ast.Expr, self *Lemma) string {
	w := c.w
	call, ok := u.(*ast.CallExpr)
	if !ok {
		cerr("bad uses clause")
	}
	id, ok := call.Fun.(*ast.Ident)
	if !ok {
		cerr("bad uses clause")
	}
	var used *Lemma
	for _, l2 := range w.lemmas {
		if l2.Name == id.Name {
			used = l2
		}
	}
	if used == nil || used == self {
		cerr("uses unknown lemma %s", id.Name)
	}
	fe, err := parser.ParseExpr("func(" + used.Vars + "){}")
	if err != nil {
		cerr("lemma variables: %v", err)
	}
	uenv := &CEnv{c: c, st: env.st, old: env.old, bound: map[string]CVal{}}
	k := 0
	for _, fld := range fe.(*ast.FuncLit).Type.Params.List {
		t := c.typeFromExpr(env, fld.Type)
		for _, nm := range fld.Names {
			if k >= len(call.Args) {
				cerr("too few arguments for lemma %s", used.Name)
			}
			av := c.materialize(c.evalExpr(env, call.Args[k]), t)
			uenv.bound[nm.Name] = CVal{V: av.V, T: t}
			k++
		}
	}
	c.depsUsed["lemma "+used.Name+" (proved in the same run)"] = true
	return c.evalBool(uenv, used.Expr, used.Text)
}
