// main.go - vcgo command line.
package main

import (
	"flag"
	"fmt"
	"os"
	"regexp"
	"runtime"
	"sort"
	"strings"
	"sync"
	"time"

	"golang.org/x/tools/go/ssa"
)

func main() {
	if len(os.Args) < 2 {
		fmt.Fprintln(os.Stderr, "usage: vcgo <check|sweep|list> ...")
		os.Exit(2)
	}
	switch os.Args[1] {
	case "sweep":
		cmdSweep(os.Args[2:])
	case "check":
		cmdCheck(os.Args[2:])
	default:
		fmt.Fprintln(os.Stderr, "unknown command", os.Args[1])
		os.Exit(2)
	}
}

func mustWorld(repo, specs string) *World {
	t0 := time.Now()
	w, err := loadWorld(repo)
	if err != nil {
		fmt.Println("ERROR loading /repo:", err)
		os.Exit(2)
	}
	if err := w.loadContracts(specs); err != nil {
		fmt.Println("ERROR in contracts:", err)
		os.Exit(2)
	}
	fmt.Fprintf(os.Stderr, "loaded %d functions, %d contracts in %.1fs\n", len(w.fnList), len(w.contracts), time.Since(t0).Seconds())
	return w
}

// verifyMany verifies functions in parallel (VC generation is per-function and independent).
func (w *World) verifyMany(fns []*ssa.Function, sv *Solver, tier string) []*FnResult {
	out := make([]*FnResult, len(fns))
	var wg sync.WaitGroup
	gen := make(chan struct{}, 4)
	var mu sync.Mutex
	for i, fn := range fns {
		i, fn := i, fn
		wg.Add(1)
		go func() {
			defer wg.Done()
			gen <- struct{}{}
			defer func() { <-gen }()
			defer func() {
				if r := recover(); r != nil {
					buf := make([]byte, 4096)
					n := runtime.Stack(buf, false)
					mu.Lock()
					out[i] = &FnResult{Name: fnName(fn), Unsupported: fmt.Sprintf("ENGINE CRASH: %v\n%s", r, buf[:n]), Notes: map[string]int{}}
					mu.Unlock()
				}
			}()
			r := w.verifyFn(fn, sv, tier)
			mu.Lock()
			out[i] = r
			mu.Unlock()
		}()
	}
	wg.Wait()
	return out
}

func cmdSweep(args []string) {
	fs := flag.NewFlagSet("sweep", flag.ExitOnError)
	repo := fs.String("repo", "/repo", "repository")
	specs := fs.String("specs", "/verif/specs", "spec dir")
	only := fs.String("fn", "", "regexp on function name")
	timeout := fs.Int("t", 5, "solver timeout (s)")
	dump := fs.String("dump", "", "dump failing queries to dir")
	verbose := fs.Bool("v", false, "verbose")
	dead := fs.Bool("dead", false, "report CFG edges that are infeasible under the collected assumptions (vacuity diagnostic)")
	kinds := fs.String("kinds", "", "only these obligation kinds (comma separated)")
	fs.Parse(args)
	w := mustWorld(*repo, *specs)
	w.deadEdges = *dead
	var re *regexp.Regexp
	if *only != "" {
		re = regexp.MustCompile(*only)
	}
	var fns []*ssa.Function
	for _, fn := range w.fnList {
		if strings.Contains(w.fset.Position(fn.Pos()).Filename, "_gen.go") {
			continue
		}
		if re != nil && !re.MatchString(fnName(fn)) {
			continue
		}
		fns = append(fns, fn)
	}
	sv := newSolver(*timeout, 14)
	sv.DumpDir = *dump
	t0 := time.Now()
	rs := w.verifyMany(fns, sv, "quick")
	nf, nu, tot, pr, fl, un := 0, 0, 0, 0, 0, 0
	why := map[string]int{}
	kindOK := func(k string) bool { return *kinds == "" || strings.Contains(","+*kinds+",", ","+k+",") }
	for _, r := range rs {
		nf++
		if r.Unsupported != "" {
			nu++
			why[strings.SplitN(r.Unsupported, "\n", 2)[0]]++
			fmt.Printf("UNSUP  %-70s %s\n", r.Name, r.Unsupported)
			continue
		}
		p, f, u := 0, 0, 0
		var lines []string
		for _, o := range r.Obls {
			if !kindOK(o.Kind) {
				continue
			}
			switch o.Status {
			case "unsat":
				p++
				if *verbose {
					lines = append(lines, fmt.Sprintf("         ok   %s  [%s %dms] %s", o.Name, o.Solver, o.Ms, o.Expr))
				}
			case "sat":
				f++
				lines = append(lines, fmt.Sprintf("         FAIL %s @%s:%d  %s  model=%v", o.Name, shortFile(o.Pos.Filename), o.Pos.Line, o.Expr, compactModel(o.Model)))
			default:
				u++
				lines = append(lines, fmt.Sprintf("         UNK  %s @%s:%d  %s [%s: %s]", o.Name, shortFile(o.Pos.Filename), o.Pos.Line, o.Expr, o.Status, o.Output))
			}
		}
		for _, d := range r.DeadEdges {
			lines = append(lines, "         DEAD "+d)
		}
		tot += p + f + u
		pr += p
		fl += f
		un += u
		ct := ""
		if r.HasContract {
			ct = " [contract]"
		}
		fmt.Printf("OK     %-70s obl=%d proved=%d failed=%d unknown=%d H=%d/%d%s", r.Name, p+f+u, p, f, u, r.HKept, r.HTotal, ct)
		if *verbose {
			fmt.Printf(" notes=%v unknownCalls=%v inferred=%v", r.Notes, r.Unknown, r.InferredVariants)
		} else if len(r.Unknown) > 0 {
			fmt.Printf(" unknownCalls=%v", r.Unknown)
		}
		fmt.Println()
		for _, l := range lines {
			fmt.Println(l)
		}
	}
	fmt.Printf("\nfunctions=%d unsupported=%d obligations=%d proved=%d failed=%d unknown=%d wall=%.1fs queries=%d\n", nf, nu, tot, pr, fl, un, time.Since(t0).Seconds(), sv.Queries)
	var ws []string
	for k, v := range why {
		ws = append(ws, fmt.Sprintf("%4d %s", v, k))
	}
	sort.Sort(sort.Reverse(sort.StringSlice(ws)))
	for _, x := range ws {
		fmt.Println(x)
	}
	for n, s := range sv.Stats {
		fmt.Printf("solver %-7s unsat=%d sat=%d other=%d time=%.1fs\n", n, s.Unsat, s.Sat, s.Unknown, float64(s.Ms)/1000)
	}
}

func shortFile(f string) string { return strings.TrimPrefix(f, "/repo/") }

func compactModel(m map[string]string) string {
	if len(m) == 0 {
		return "-"
	}
	var ks []string
	for k := range m {
		ks = append(ks, k)
	}
	sort.Strings(ks)
	var parts []string
	for _, k := range ks {
		parts = append(parts, k+"="+m[k])
	}
	s := strings.Join(parts, " ")
	if len(s) > 300 {
		s = s[:300] + "..."
	}
	return s
}

