// cexpr.go - evaluation of contract expressions (Go expression syntax + ==>, <==>, forall, old, ghost functions).
package main

import (
	"fmt"
	"go/ast"
	"go/constant"
	"go/token"
	"go/types"
	"strconv"
	"strings"

	"golang.org/x/tools/go/ssa"
)

type CVal struct {
	V   Val
	T   types.Type
	K   constant.Value // untyped constant
	Nil bool
	Pkg *types.Package // package name
	Ty  types.Type     // type expression
}

type contractError struct{ msg string }

func cerr(f string, a ...interface{}) { panic(contractError{fmt.Sprintf(f, a...)}) }

type CEnv struct {
	c      *Ctx
	st     *State
	old    *State
	lookup func(name string, old bool) (CVal, bool)
	pkg    *types.Package
	inOld  bool
	bound  map[string]CVal
	depth  int
	topBefore string
}

var tInt = types.Typ[types.Int]
var tBool = types.Typ[types.Bool]
var tUint8 = types.Typ[types.Uint8]

func (e *CEnv) state() *State {
	if e.inOld && e.old != nil {
		return e.old
	}
	return e.st
}

func (c *Ctx) evalBool(env *CEnv, x ast.Expr, text string) string {
	v := c.evalExpr(env, x)
	sc, ok := v.V.(Sc)
	if !ok || sc.S != "Bool" {
		cerr("clause %q is not boolean", text)
	}
	return sc.T
}

func (c *Ctx) toBV64(v CVal) string {
	if v.K != nil {
		return c.constOf(v.K, tInt).(Sc).T
	}
	sc, ok := v.V.(Sc)
	if !ok {
		cerr("integer expected")
	}
	if !isBV(sc.S) {
		cerr("integer expected, got %s", sc.S)
	}
	return c.toI64(sc, v.T)
}

func (c *Ctx) materialize(v CVal, t types.Type) CVal {
	if v.K != nil {
		if t == nil {
			if v.K.Kind() == constant.String {
				t = types.Typ[types.String]
			} else if v.K.Kind() == constant.Bool {
				t = tBool
			} else if v.K.Kind() == constant.Float {
				t = types.Typ[types.Float64]
			} else {
				t = tInt
			}
		}
		return CVal{V: c.constOf(v.K, t), T: t}
	}
	return v
}

func (c *Ctx) evalExpr(env *CEnv, x ast.Expr) CVal {
	switch e := x.(type) {
	case *ast.ParenExpr:
		return c.evalExpr(env, e.X)
	case *ast.BasicLit:
		switch e.Kind {
		case token.INT, token.CHAR, token.FLOAT:
			return CVal{K: constant.MakeFromLiteral(e.Value, e.Kind, 0)}
		case token.STRING:
			s, err := strconv.Unquote(e.Value)
			if err != nil {
				cerr("bad string literal %s", e.Value)
			}
			return CVal{K: constant.MakeString(s)}
		}
	case *ast.Ident:
		return c.evalIdent(env, e.Name)
	case *ast.UnaryExpr:
		v := c.evalExpr(env, e.X)
		switch e.Op {
		case token.NOT:
			return CVal{V: Sc{not(c.evalAsBool(v)), "Bool"}, T: tBool}
		case token.SUB:
			if v.K != nil {
				return CVal{K: constant.UnaryOp(token.SUB, v.K, 0)}
			}
			sc := v.V.(Sc)
			if isBV(sc.S) {
				return CVal{V: Sc{"(bvneg " + sc.T + ")", sc.S}, T: v.T}
			}
			return CVal{V: Sc{"(fp.neg " + sc.T + ")", sc.S}, T: v.T}
		case token.XOR:
			if v.K != nil {
				cerr("^ on untyped constant")
			}
			sc := v.V.(Sc)
			return CVal{V: Sc{"(bvnot " + sc.T + ")", sc.S}, T: v.T}
		case token.AND:
			cerr("address-of in contract")
		}
	case *ast.BinaryExpr:
		return c.evalBinary(env, e)
	case *ast.SelectorExpr:
		return c.evalSelector(env, e)
	case *ast.IndexExpr:
		base := c.evalExpr(env, e.X)
		idx := c.toBV64(c.evalExpr(env, e.Index))
		return c.indexVal(env, base, idx)
	case *ast.SliceExpr:
		base := c.evalExpr(env, e.X)
		lo, hi := i64(0), ""
		if e.Low != nil {
			lo = c.toBV64(c.evalExpr(env, e.Low))
		}
		switch b := base.V.(type) {
		case SliceV:
			hi = b.Len
			if e.High != nil {
				hi = c.toBV64(c.evalExpr(env, e.High))
			}
			return CVal{V: SliceV{b.Arr, fmt.Sprintf("(bvadd %s %s)", b.Off, lo), fmt.Sprintf("(bvsub %s %s)", hi, lo), fmt.Sprintf("(bvsub %s %s)", b.Cap, lo), b.Elem}, T: base.T}
		case StrV:
			hi = b.Len
			if e.High != nil {
				hi = c.toBV64(c.evalExpr(env, e.High))
			}
			return CVal{V: StrV{b.Data, fmt.Sprintf("(bvadd %s %s)", b.Off, lo), fmt.Sprintf("(bvsub %s %s)", hi, lo)}, T: base.T}
		}
		cerr("slice expression on %T", base.V)
	case *ast.CallExpr:
		return c.evalCall(env, e)
	case *ast.StarExpr:
		v := c.evalExpr(env, e.X)
		pt, ok := v.T.Underlying().(*types.Pointer)
		if !ok {
			cerr("deref of non-pointer")
		}
		ref := v.V.(Sc).T
		if at, ok := pt.Elem().Underlying().(*types.Array); ok {
			// pointer to a whole array object: element memory id is 4096*ref (as in instr.go)
			return CVal{V: ArrV{A: c.loadLiftedMem(env.state(), "(* 4096 "+ref+")", at.Elem(), typeKey(at.Elem()), ""), N: at.Len(), Elem: at.Elem()}, T: pt.Elem()}
		}
		return CVal{V: c.load(env.state(), PtrV{Kind: 1, Ref: ref, Root: pt.Elem(), Elem: pt.Elem()}), T: pt.Elem()}
	}
	cerr("unsupported contract expression %T", x)
	return CVal{}
}

func (c *Ctx) evalAsBool(v CVal) string {
	if v.K != nil && v.K.Kind() == constant.Bool {
		return fmt.Sprint(constant.BoolVal(v.K))
	}
	sc, ok := v.V.(Sc)
	if !ok || sc.S != "Bool" {
		cerr("boolean expected")
	}
	return sc.T
}

var basicTypes = map[string]types.Type{
	"int": types.Typ[types.Int], "int8": types.Typ[types.Int8], "int16": types.Typ[types.Int16], "int32": types.Typ[types.Int32], "int64": types.Typ[types.Int64],
	"uint": types.Typ[types.Uint], "uint8": types.Typ[types.Uint8], "uint16": types.Typ[types.Uint16], "uint32": types.Typ[types.Uint32], "uint64": types.Typ[types.Uint64],
	"byte": types.Typ[types.Uint8], "rune": types.Typ[types.Int32], "bool": types.Typ[types.Bool], "string": types.Typ[types.String], "uintptr": types.Typ[types.Uintptr],
	"float32": types.Typ[types.Float32], "float64": types.Typ[types.Float64],
}

func (c *Ctx) evalIdent(env *CEnv, name string) CVal {
	if v, ok := env.bound[name]; ok {
		return v
	}
	switch name {
	case "true":
		return CVal{V: Sc{"true", "Bool"}, T: tBool}
	case "false":
		return CVal{V: Sc{"false", "Bool"}, T: tBool}
	case "nil":
		return CVal{Nil: true}
	}
	if env.lookup != nil {
		if v, ok := env.lookup(name, env.inOld); ok {
			return v
		}
	}
	if t, ok := basicTypes[name]; ok {
		return CVal{Ty: t}
	}
	// package scope of the function under contract
	if env.pkg != nil {
		if obj := env.pkg.Scope().Lookup(name); obj != nil {
			return c.objVal(env, obj)
		}
		for _, imp := range env.pkg.Imports() {
			if imp.Name() == name {
				return CVal{Pkg: imp}
			}
		}
	}
	// any module / loaded package by name
	var found *types.Package
	for path, p := range c.w.allPkgs {
		if p.Types != nil && p.Types.Name() == name {
			if found == nil || strings.HasPrefix(path, modulePath) && !strings.HasPrefix(found.Path(), modulePath) {
				found = p.Types
			}
		}
	}
	if found != nil {
		return CVal{Pkg: found}
	}
	cerr("unknown identifier %q", name)
	return CVal{}
}

func (c *Ctx) objVal(env *CEnv, obj types.Object) CVal {
	switch o := obj.(type) {
	case *types.Const:
		if b, ok := o.Type().Underlying().(*types.Basic); ok && b.Info()&types.IsUntyped != 0 {
			return CVal{K: o.Val()}
		}
		return CVal{V: c.constOf(o.Val(), o.Type()), T: o.Type()}
	case *types.TypeName:
		return CVal{Ty: o.Type()}
	case *types.Var:
		// package-level variable
		pk := c.w.prog.Package(o.Pkg())
		if pk == nil {
			cerr("no ssa package for %s", o.Pkg().Path())
		}
		g, ok := pk.Members[o.Name()].(*ssa.Global)
		if !ok {
			cerr("%s is not a global", o.Name())
		}
		p := c.globalPtr(g)
		pv := p.(PtrV)
		if pv.Kind == 2 {
			if lv, ok := c.constArrayFor(pv); ok {
				at := pv.Elem.Underlying().(*types.Array)
				return CVal{V: ArrV{A: lv, N: at.Len(), Elem: at.Elem()}, T: pv.Elem}
			}
		}
		return CVal{V: c.load(env.state(), pv), T: pv.Elem}
	}
	cerr("unsupported object %s", obj)
	return CVal{}
}

func (c *Ctx) evalSelector(env *CEnv, e *ast.SelectorExpr) CVal {
	base := c.evalExpr(env, e.X)
	name := e.Sel.Name
	if base.Pkg != nil {
		obj := base.Pkg.Scope().Lookup(name)
		if obj == nil {
			cerr("%s.%s not found", base.Pkg.Name(), name)
		}
		return c.objVal(env, obj)
	}
	if base.V == nil {
		cerr("selector on non-value")
	}
	return c.fieldOf(env, base, name)
}

func (c *Ctx) fieldOf(env *CEnv, base CVal, name string) CVal {
	t := base.T
	if pt, ok := t.Underlying().(*types.Pointer); ok {
		st, ok := pt.Elem().Underlying().(*types.Struct)
		if !ok {
			cerr("field %s of pointer to non-struct", name)
		}
		r, ok2 := ptrAsRef(base.V)
		if !ok2 {
			cerr("field of non-ref pointer")
		}
		for i := 0; i < st.NumFields(); i++ {
			if st.Field(i).Name() == name {
				ft := st.Field(i).Type()
				v := c.loadAt(env.state(), objLoc{kind: 1, keyPfx: typeKey(pt.Elem()), ref: r.T}, ft, "."+name)
				return CVal{V: v, T: ft}
			}
		}
		// ghost field
		if gf, ok := c.w.ghostFields[typeKey(pt.Elem())]; ok {
			if gt, ok := gf[name]; ok {
				ft := basicTypes[gt]
				if ft == nil {
					cerr("ghost field type %s", gt)
				}
				v := c.loadAt(env.state(), objLoc{kind: 1, keyPfx: "ghost." + typeKey(pt.Elem()), ref: r.T}, ft, "."+name)
				return CVal{V: v, T: ft}
			}
		}
		// embedded struct promotion (one level)
		for i := 0; i < st.NumFields(); i++ {
			if st.Field(i).Embedded() {
				ft := st.Field(i).Type()
				v := c.loadAt(env.state(), objLoc{kind: 1, keyPfx: typeKey(pt.Elem()), ref: r.T}, ft, "."+st.Field(i).Name())
				if sub, ok := c.tryField(env, CVal{V: v, T: ft}, name); ok {
					return sub
				}
			}
		}
		cerr("no field %s in %s", name, pt.Elem())
	}
	if v, ok := c.tryField(env, base, name); ok {
		return v
	}
	cerr("no field %s in %s", name, t)
	return CVal{}
}

func (c *Ctx) tryField(env *CEnv, base CVal, name string) (CVal, bool) {
	st, ok := base.T.Underlying().(*types.Struct)
	if !ok {
		return CVal{}, false
	}
	sv, ok := base.V.(StructV)
	if !ok {
		return CVal{}, false
	}
	for i := 0; i < st.NumFields(); i++ {
		if st.Field(i).Name() == name {
			return CVal{V: sv.F[i], T: st.Field(i).Type()}, true
		}
	}
	for i := 0; i < st.NumFields(); i++ {
		if st.Field(i).Embedded() {
			if v, ok := c.tryField(env, CVal{V: sv.F[i], T: st.Field(i).Type()}, name); ok {
				return v, true
			}
		}
	}
	return CVal{}, false
}

func (c *Ctx) indexVal(env *CEnv, base CVal, idx string) CVal {
	switch b := base.V.(type) {
	case SliceV:
		et := base.T.Underlying().(*types.Slice).Elem()
		v := c.loadAt(env.state(), objLoc{kind: 2, keyPfx: typeKey(et), arrId: b.Arr, idx: fmt.Sprintf("(bvadd %s %s)", b.Off, idx)}, et, "")
		return CVal{V: v, T: et}
	case StrV:
		return CVal{V: Sc{fmt.Sprintf("(select %s (bvadd %s %s))", b.Data, b.Off, idx), BV8}, T: tUint8}
	case ArrV:
		return CVal{V: sel(b.A, idx), T: b.Elem}
	}
	if base.K != nil && base.K.Kind() == constant.String {
		s := c.strLit(constant.StringVal(base.K))
		return CVal{V: Sc{fmt.Sprintf("(select %s %s)", s.Data, idx), BV8}, T: tUint8}
	}
	cerr("index on %T", base.V)
	return CVal{}
}

func (c *Ctx) evalBinary(env *CEnv, e *ast.BinaryExpr) CVal {
	switch e.Op {
	case token.LAND:
		return CVal{V: Sc{and(c.evalAsBool(c.evalExpr(env, e.X)), c.evalAsBool(c.evalExpr(env, e.Y))), "Bool"}, T: tBool}
	case token.LOR:
		return CVal{V: Sc{or(c.evalAsBool(c.evalExpr(env, e.X)), c.evalAsBool(c.evalExpr(env, e.Y))), "Bool"}, T: tBool}
	}
	a := c.evalExpr(env, e.X)
	b := c.evalExpr(env, e.Y)
	isCmp := e.Op == token.EQL || e.Op == token.NEQ || e.Op == token.LSS || e.Op == token.LEQ || e.Op == token.GTR || e.Op == token.GEQ
	if a.K != nil && b.K != nil {
		if isCmp {
			return CVal{K: constant.MakeBool(constant.Compare(a.K, e.Op, b.K))}
		}
		if e.Op == token.SHL || e.Op == token.SHR {
			n, _ := constant.Uint64Val(b.K)
			return CVal{K: constant.Shift(a.K, e.Op, uint(n))}
		}
		op := e.Op
		if op == token.QUO && a.K.Kind() == constant.Int && b.K.Kind() == constant.Int {
			op = token.QUO_ASSIGN
		}
		return CVal{K: constant.BinaryOp(a.K, op, b.K)}
	}
	// nil comparisons
	if a.Nil || b.Nil {
		o := a
		if a.Nil {
			o = b
		}
		var eq string
		switch v := o.V.(type) {
		case IfaceV:
			eq = fmt.Sprintf("(= %s 0)", v.Tag)
		case SliceV:
			eq = fmt.Sprintf("(= %s 0)", v.Arr)
		default:
			r, ok := ptrAsRef(o.V)
			if !ok {
				cerr("nil comparison on %T", o.V)
			}
			eq = fmt.Sprintf("(= %s 0)", r.T)
		}
		if e.Op == token.NEQ {
			eq = not(eq)
		} else if e.Op != token.EQL {
			cerr("bad nil comparison")
		}
		return CVal{V: Sc{eq, "Bool"}, T: tBool}
	}
	if e.Op == token.SHL || e.Op == token.SHR {
		a = c.materialize(a, nil)
		b = c.materialize(b, types.Typ[types.Uint64])
		r := c.arith(e.Op, a.V.(Sc), b.V.(Sc), a.T, b.T, "", token.NoPos, "")
		return CVal{V: r, T: a.T}
	}
	if a.K != nil {
		a = c.materialize(a, b.T)
	}
	if b.K != nil {
		b = c.materialize(b, a.T)
	}
	rt := a.T
	if isCmp {
		rt = tBool
	}
	switch av := a.V.(type) {
	case StrV:
		bv, ok := b.V.(StrV)
		if !ok {
			cerr("string compared with %T", b.V)
		}
		eq := c.strEq(av, bv)
		if e.Op == token.NEQ {
			eq = not(eq)
		} else if e.Op != token.EQL {
			cerr("string operator %s", e.Op)
		}
		return CVal{V: Sc{eq, "Bool"}, T: tBool}
	case IfaceV:
		bv, ok := b.V.(IfaceV)
		if !ok {
			cerr("interface compared with %T", b.V)
		}
		eq := c.ifaceEq(av, bv)
		if e.Op == token.NEQ {
			eq = not(eq)
		}
		return CVal{V: Sc{eq, "Bool"}, T: tBool}
	case StructV, ArrV, SliceV, TupleV:
		if e.Op != token.EQL && e.Op != token.NEQ {
			cerr("operator %s on composite", e.Op)
		}
		eq := valEq(a.V, b.V)
		if e.Op == token.NEQ {
			eq = not(eq)
		}
		return CVal{V: Sc{eq, "Bool"}, T: tBool}
	}
	as, ok1 := ptrAsRef(a.V)
	bs, ok2 := ptrAsRef(b.V)
	if !ok1 || !ok2 {
		cerr("operands of %s are %T, %T", e.Op, a.V, b.V)
	}
	if as.S != bs.S {
		// mixed widths: widen both to 64-bit per their own signedness
		if isBV(as.S) && isBV(bs.S) {
			x, y := c.toI64(as, a.T), c.toI64(bs, b.T)
			as, bs = Sc{x, BV64}, Sc{y, BV64}
			a.T, b.T = tInt, tInt
			if !isCmp {
				rt = tInt
			}
		} else {
			cerr("sort mismatch in %s: %s vs %s", e.Op, as.S, bs.S)
		}
	}
	if e.Op == token.EQL && as.S == "Bool" {
		return CVal{V: Sc{fmt.Sprintf("(= %s %s)", as.T, bs.T), "Bool"}, T: tBool}
	}
	c.noDivObl++
	r := c.arith(e.Op, as, bs, a.T, b.T, "", token.NoPos, "")
	c.noDivObl--
	return CVal{V: r, T: rt}
}

func (c *Ctx) ghostComp(env *CEnv, name string, ref string, sort string) string {
	t := fmt.Sprintf("(select %s %s)", c.heapGet(env.state(), "ghost."+name, sort), ref)
	if name == "pos" || name == "lim" {
		// data-structure invariant of the ghost stream: 0 <= pos <= lim <= 2^62 (preserved by every dependency contract)
		p := fmt.Sprintf("(select %s %s)", c.heapGet(env.state(), "ghost.pos", BV64), ref)
		l := fmt.Sprintf("(select %s %s)", c.heapGet(env.state(), "ghost.lim", BV64), ref)
		key := p + "|" + l
		if !c.streamInv[key] && c.noName == 0 {
			c.streamInv[key] = true
			c.assume("true", fmt.Sprintf("(and (bvsle %s %s) (bvsle %s %s) (bvsle %s #x4000000000000000))", i64(0), p, p, l, l))
		}
	}
	if name == "sid" {
		key := "sid|" + t
		if !c.streamInv[key] && c.noName == 0 {
			c.streamInv[key] = true
			// (only for an actual reader object: a nil reader reference - e.g. the failed branch of a comma-ok type
			// assertion - has no stream, and an unconditional fact about it would make that branch infeasible)
			c.assume("true", fmt.Sprintf("(=> (not (= %s 0)) (and (>= %s 1) (<= %s 4095)))", ref, t, t))
		}
	}
	if name == "peeked" || name == "bsize" {
		key := t
		if !c.streamInv[key] && c.noName == 0 {
			c.streamInv[key] = true
			c.assume("true", fmt.Sprintf("(and (bvsle %s %s) (bvsle %s #x0000000100000000))", i64(0), t, t))
		}
	}
	return t
}

// streamRef: the ghost stream object behind a reader value. Normally the reader object itself; for a type declared
// `streamalias *T path` (a reader that is a window onto another reader, e.g. *isobmff.box onto box.reader.br) the
// object reached through path - for an interface value of unknown dynamic type this is decided by its type tag.
func (c *Ctx) streamRef(env *CEnv, v CVal) string {
	base := refOf(v)
	if len(c.w.streamAlias) == 0 {
		return base
	}
	out := base
	for _, al := range c.w.streamAlias {
		t := c.resolveTypeName(env, al.typ)
		pt, ok := t.(*types.Pointer)
		if !ok {
			continue
		}
		deref := func() string {
			cur := base
			ct := pt.Elem()
			for _, f := range al.path {
				stt, ok := ct.Underlying().(*types.Struct)
				if !ok {
					cerr("streamalias %s: %s is not a struct", al.typ, ct)
				}
				var ft types.Type
				for i := 0; i < stt.NumFields(); i++ {
					if stt.Field(i).Name() == f {
						ft = stt.Field(i).Type()
					}
				}
				if ft == nil {
					cerr("streamalias %s: no field %s", al.typ, f)
				}
				cur = fmt.Sprintf("(select %s %s)", c.heapGet(env.state(), typeKey(ct)+"."+f, "Int"), cur)
				if p2, ok := ft.Underlying().(*types.Pointer); ok {
					ct = p2.Elem()
				} else {
					ct = ft
				}
			}
			return cur
		}
		switch x := v.V.(type) {
		case IfaceV:
			// a value of static interface type I cannot hold a T that does not implement I (a box is no io.ReadSeeker)
			if it, ok := v.T.Underlying().(*types.Interface); ok && v.T != nil && !types.Implements(t, it) {
				continue
			}
			out = fmt.Sprintf("(ite (= %s %d) %s %s)", x.Tag, c.w.typeTag(t), deref(), out)
		default:
			if v.T != nil && types.Identical(v.T, t) {
				return deref()
			}
		}
	}
	return out
}

func refOf(v CVal) string {
	switch x := v.V.(type) {
	case IfaceV:
		return x.Ref
	}
	if r, ok := ptrAsRef(v.V); ok && r.S == "Int" {
		return r.T
	}
	cerr("reader reference expected, got %T", v.V)
	return ""
}

func (c *Ctx) evalCall(env *CEnv, e *ast.CallExpr) CVal {
	if id, ok := e.Fun.(*ast.Ident); ok {
		switch id.Name {
		case "__imp":
			return CVal{V: Sc{imp(c.evalAsBool(c.evalExpr(env, e.Args[0])), c.evalAsBool(c.evalExpr(env, e.Args[1]))), "Bool"}, T: tBool}
		case "__iff":
			return CVal{V: Sc{fmt.Sprintf("(= %s %s)", c.evalAsBool(c.evalExpr(env, e.Args[0])), c.evalAsBool(c.evalExpr(env, e.Args[1]))), "Bool"}, T: tBool}
		case "__forall", "__exists":
			fl := e.Args[0].(*ast.FuncLit)
			ne := *env
			ne.bound = map[string]CVal{}
			for k, v := range env.bound {
				ne.bound[k] = v
			}
			var binders []string
			var ranges []string
			var qsyms, qsorts []string
			for _, fld := range fl.Type.Params.List {
				tn := fld.Type.(*ast.Ident).Name
				t := basicTypes[tn]
				if t == nil {
					cerr("quantified variable type %s", tn)
				}
				srt, _ := scalarSort(t)
				for _, nm := range fld.Names {
					c.n++
					sym := fmt.Sprintf("q_%s_%d", nm.Name, c.n)
					binders = append(binders, fmt.Sprintf("(%s %s)", sym, srt))
					qsyms = append(qsyms, sym)
					qsorts = append(qsorts, srt)
					ne.bound[nm.Name] = CVal{V: Sc{sym, srt}, T: t}
				}
			}
			_ = ranges
			c.noName++
			body := c.evalAsBool(c.evalExpr(&ne, fl.Body.List[0].(*ast.ReturnStmt).Results[0]))
			c.noName--
			q := "forall"
			if id.Name == "__exists" {
				q = "exists"
			}
			c.quantified = true
			full := fmt.Sprintf("(%s (%s) %s)", q, strings.Join(binders, " "), body)
			if q == "forall" {
				c.registerForall(full, qsyms, qsorts, body)
			}
			return CVal{V: Sc{full, "Bool"}, T: tBool}
		case "old":
			ne := *env
			ne.inOld = true
			return c.evalExpr(&ne, e.Args[0])
		case "atentry":
			// atentry(N, e): the value of e when loop N was entered (the state before its first iteration)
			k := c.evalExpr(env, e.Args[0])
			if k.K == nil {
				cerr("atentry: loop ordinal must be a constant")
			}
			n, _ := constant.Int64Val(k.K)
			he := c.loopEntryEnv[int(n)]
			if he == nil {
				cerr("atentry(%d, ...): loop %d has not been entered", n, n)
			}
			ne := *he
			ne.bound = env.bound
			ne.depth = env.depth
			return c.evalExpr(&ne, e.Args[1])
		case "athead":
			// athead(N, e): the value of e at the head of the current iteration of the enclosing loop N (for the
			// invariants and measures of loops nested inside it: "progress since the outer iteration began")
			k := c.evalExpr(env, e.Args[0])
			if k.K == nil {
				cerr("athead: loop ordinal must be a constant")
			}
			n, _ := constant.Int64Val(k.K)
			he := c.loopHeadEnv[int(n)]
			if he == nil {
				cerr("athead(%d, ...): no enclosing loop %d has been entered", n, n)
			}
			ne := *he
			ne.bound = env.bound
			ne.depth = env.depth
			return c.evalExpr(&ne, e.Args[1])
		case "len", "cap":
			v := c.evalExpr(env, e.Args[0])
			if v.K != nil && v.K.Kind() == constant.String {
				return CVal{K: constant.MakeInt64(int64(len(constant.StringVal(v.K))))}
			}
			switch a := v.V.(type) {
			case SliceV:
				if id.Name == "len" {
					return CVal{V: Sc{a.Len, BV64}, T: tInt}
				}
				return CVal{V: Sc{a.Cap, BV64}, T: tInt}
			case StrV:
				return CVal{V: Sc{a.Len, BV64}, T: tInt}
			case ArrV:
				return CVal{K: constant.MakeInt64(a.N)}
			}
			cerr("len of %T", v.V)
		case "pos", "lim", "peeked", "bsize":
			r := c.streamRef(env, c.evalExpr(env, e.Args[0]))
			return CVal{V: Sc{c.ghostComp(env, id.Name, r, BV64), BV64}, T: tInt}
		case "sid":
			r := c.streamRef(env, c.evalExpr(env, e.Args[0]))
			return CVal{V: Sc{c.ghostComp(env, "sid", r, "Int"), "Int"}, T: types.Typ[types.UnsafePointer]}
		case "fault":
			r := c.streamRef(env, c.evalExpr(env, e.Args[0]))
			return CVal{V: Sc{c.ghostComp(env, "fault", r, "Bool"), "Bool"}, T: tBool}
		case "data":
			// data(r, i): byte i of the stream behind reader r
			r := c.streamRef(env, c.evalExpr(env, e.Args[0]))
			i := c.toBV64(c.evalExpr(env, e.Args[1]))
			sid := c.ghostComp(env, "sid", r, "Int")
			// stream arrays (ids 1..4095) are immutable: always read them in the entry memory, so that the value does
			// not depend on which havocs (callbacks, unknown calls) lie between two mentions of the same byte
			ms := env.state()
			if c.entryState != nil {
				ms = c.entryState
			}
			return CVal{V: Sc{fmt.Sprintf("(select (select %s %s) %s)", c.memGet(ms, "uint8", BV8), sid, i), BV8}, T: tUint8}
		case "arr":
			v := c.evalExpr(env, e.Args[0])
			s, ok := v.V.(SliceV)
			if !ok {
				cerr("arr() of non-slice")
			}
			return CVal{V: Sc{s.Arr, "Int"}, T: types.Typ[types.UnsafePointer]}
		case "off":
			v := c.evalExpr(env, e.Args[0])
			s, ok := v.V.(SliceV)
			if !ok {
				cerr("off() of non-slice")
			}
			return CVal{V: Sc{s.Off, BV64}, T: tInt}
		case "hasAt":
			// hasAt(b, off, "literal"): the bytes of the literal occur in b at constant offset off
			b := c.evalExpr(env, e.Args[0])
			o := c.toBV64(c.evalExpr(env, e.Args[1]))
			lit := c.evalExpr(env, e.Args[2])
			if lit.K == nil || lit.K.Kind() != constant.String {
				cerr("hasAt: string literal expected")
			}
			str := constant.StringVal(lit.K)
			var parts []string
			for i := 0; i < len(str); i++ {
				bv := c.indexVal(env, b, fmt.Sprintf("(bvadd %s %s)", o, i64(int64(i))))
				parts = append(parts, fmt.Sprintf("(= %s %s)", bv.V.(Sc).T, bvlit(8, uint64(str[i]))))
			}
			return CVal{V: Sc{and(parts...), "Bool"}, T: tBool}
		case "window":
			// window(r): the unread part of the stream behind r as a byte slice value
			r := c.streamRef(env, c.evalExpr(env, e.Args[0]))
			sid := c.ghostComp(env, "sid", r, "Int")
			p := c.ghostComp(env, "pos", r, BV64)
			l := c.ghostComp(env, "lim", r, BV64)
			n := fmt.Sprintf("(bvsub %s %s)", l, p)
			return CVal{V: SliceV{sid, p, n, n, tUint8}, T: types.NewSlice(tUint8)}
		case "enumNames":
			// enumNames(v, r, "fallback", k1, "n1", k2, "n2", ...): every listed value formats as its name, every other as the fallback
			if len(e.Args) < 3 || len(e.Args)%2 != 1 {
				cerr("enumNames: bad argument count")
			}
			v := c.evalExpr(env, e.Args[0])
			r := c.evalExpr(env, e.Args[1])
			rs, ok := r.V.(StrV)
			if !ok {
				cerr("enumNames: result is not a string")
			}
			strOf := func(x ast.Expr) StrV {
				l := c.evalExpr(env, x)
				if l.K == nil || l.K.Kind() != constant.String {
					cerr("enumNames: string literal expected")
				}
				return c.strLit(constant.StringVal(l.K))
			}
			var parts, others []string
			for i := 3; i+1 < len(e.Args); i += 2 {
				k := c.evalExpr(env, e.Args[i])
				if k.K != nil {
					k = c.materialize(k, v.T)
				}
				eq := fmt.Sprintf("(= %s %s)", v.V.(Sc).T, k.V.(Sc).T)
				parts = append(parts, imp(eq, c.strEq(rs, strOf(e.Args[i+1]))))
				others = append(others, not(eq))
			}
			parts = append(parts, imp(and(others...), c.strEq(rs, strOf(e.Args[2]))))
			return CVal{V: Sc{and(parts...), "Bool"}, T: tBool}
		case "res0", "res1", "res2":
			// resK(call): K-th result of a multi-result real function executed in specification mode
			v := c.evalExpr(env, e.Args[0])
			tv, ok := v.V.(TupleV)
			tt, ok2 := v.T.(*types.Tuple)
			k := int(id.Name[3] - '0')
			if !ok || !ok2 || k >= len(tv.V) {
				cerr("%s: argument is not a call with at least %d results", id.Name, k+1)
			}
			return CVal{V: tv.V[k], T: tt.At(k).Type()}
		case "as":
			// as(x, "*T"): the payload of interface value x viewed as a pointer of type *T (meaningful when is(x, "*T"))
			v := c.evalExpr(env, e.Args[0])
			tn := c.evalExpr(env, e.Args[1])
			if tn.K == nil {
				cerr("as(): type name string expected")
			}
			t := c.resolveTypeName(env, constant.StringVal(tn.K))
			return CVal{V: Sc{refOf(v), "Int"}, T: t}
		case "gconst":
			// gconst("name", x): an immutable ghost attribute (64-bit) of the object behind x; never havocked
			nm := c.evalExpr(env, e.Args[0])
			if nm.K == nil || nm.K.Kind() != constant.String {
				cerr("gconst: attribute name string expected")
			}
			r := refOf(c.evalExpr(env, e.Args[1]))
			h := c.heapGet(env.state(), "ghost.const."+constant.StringVal(nm.K), BV64)
			return CVal{V: Sc{fmt.Sprintf("(select %s %s)", h, r), BV64}, T: tInt}
		case "gfun":
			// gfun("name", obj, a, b, ...): an uninterpreted, immutable ghost function (64-bit result) of the object behind obj
			// and further integer arguments - e.g. the colour channel of an image at (x, y); never havocked
			nm := c.evalExpr(env, e.Args[0])
			if nm.K == nil || nm.K.Kind() != constant.String {
				cerr("gfun: function name string expected")
			}
			r := refOf(c.evalExpr(env, e.Args[1]))
			args := []string{r}
			sorts := []string{"Int"}
			for _, a := range e.Args[2:] {
				args = append(args, c.toBV64(c.evalExpr(env, a)))
				sorts = append(sorts, BV64)
			}
			fn := fmt.Sprintf("gfun_%s_%d", sanitizeSym(constant.StringVal(nm.K)), len(args))
			c.declareOnce(fmt.Sprintf("(declare-fun %s (%s) %s)", fn, strings.Join(sorts, " "), BV64))
			return CVal{V: Sc{fmt.Sprintf("(%s %s)", fn, strings.Join(args, " ")), BV64}, T: tInt}
		case "enumParse":
			// enumParse(text, v, dflt, "n1", k1, "n2", k2, ...): text equal to a listed name parses to its value, any other text to dflt
			if len(e.Args) < 3 || len(e.Args)%2 != 1 {
				cerr("enumParse: bad argument count")
			}
			tx := c.evalExpr(env, e.Args[0])
			if _, isS := tx.V.(SliceV); isS {
				tx = CVal{V: c.convertVal(tx.V, tx.T, types.Typ[types.String], env.state(), "true", token.NoPos), T: types.Typ[types.String]}
			}
			ts, ok := tx.V.(StrV)
			if !ok {
				cerr("enumParse: text is not a string or []byte")
			}
			v := c.evalExpr(env, e.Args[1])
			vs, ok := v.V.(Sc)
			if !ok {
				cerr("enumParse: scalar value expected")
			}
			valOf := func(x ast.Expr) string {
				k := c.evalExpr(env, x)
				if k.K != nil {
					k = c.materialize(k, v.T)
				}
				return k.V.(Sc).T
			}
			var parts, others []string
			for i := 3; i+1 < len(e.Args); i += 2 {
				l := c.evalExpr(env, e.Args[i])
				if l.K == nil || l.K.Kind() != constant.String {
					cerr("enumParse: string literal expected")
				}
				eq := c.strEq(ts, c.strLit(constant.StringVal(l.K)))
				parts = append(parts, imp(eq, fmt.Sprintf("(= %s %s)", vs.T, valOf(e.Args[i+1]))))
				others = append(others, not(eq))
			}
			parts = append(parts, imp(and(others...), fmt.Sprintf("(= %s %s)", vs.T, valOf(e.Args[2]))))
			return CVal{V: Sc{and(parts...), "Bool"}, T: tBool}
		case "windowAt":
			// windowAt(r, o): the stream behind r from absolute offset o as a byte slice value
			r := c.streamRef(env, c.evalExpr(env, e.Args[0]))
			o := c.toBV64(c.evalExpr(env, e.Args[1]))
			sid := c.ghostComp(env, "sid", r, "Int")
			l := c.ghostComp(env, "lim", r, BV64)
			n := fmt.Sprintf("(bvsub %s %s)", l, o)
			return CVal{V: SliceV{sid, o, n, n, tUint8}, T: types.NewSlice(tUint8)}
		case "same":
			// same(a, b): representation identity (bit-identical floats incl. NaN, identical string/slice headers,
			// field-wise for structs) - "the location was not written", as opposed to Go's == on values
			a := c.evalExpr(env, e.Args[0])
			b := c.evalExpr(env, e.Args[1])
			var eq func(x, y Val) string
			eq = func(x, y Val) string {
				switch xv := x.(type) {
				case Sc:
					if yv, ok := y.(Sc); ok {
						return fmt.Sprintf("(= %s %s)", xv.T, yv.T)
					}
				case StrV:
					if yv, ok := y.(StrV); ok {
						return fmt.Sprintf("(and (= %s %s) (= %s %s) (= %s %s))", xv.Data, yv.Data, xv.Off, yv.Off, xv.Len, yv.Len)
					}
				case SliceV:
					if yv, ok := y.(SliceV); ok {
						return fmt.Sprintf("(and (= %s %s) (= %s %s) (= %s %s) (= %s %s))", xv.Arr, yv.Arr, xv.Off, yv.Off, xv.Len, yv.Len, xv.Cap, yv.Cap)
					}
				case IfaceV:
					if yv, ok := y.(IfaceV); ok {
						return fmt.Sprintf("(and (= %s %s) (= %s %s))", xv.Tag, yv.Tag, xv.Ref, yv.Ref)
					}
				case StructV:
					if yv, ok := y.(StructV); ok && len(xv.F) == len(yv.F) {
						var ps []string
						for i := range xv.F {
							ps = append(ps, eq(xv.F[i], yv.F[i]))
						}
						return and(ps...)
					}
				}
				cerr("same(): unsupported or mismatched operands %T / %T", x, y)
				return ""
			}
			if a.V == nil || b.V == nil {
				cerr("same(): constant operand")
			}
			return CVal{V: Sc{eq(a.V, b.V), "Bool"}, T: tBool}
		case "fresh":
			v := c.evalExpr(env, e.Args[0])
			if env.topBefore != "" && c.noName == 0 {
				// an object a callee may have allocated for us: function-private as far as loop frames are concerned
				// (exempting a location from a loop frame invariant only weakens the invariant; the frame checked at
				// function exit is not affected)
				r := refOf(v)
				dup := false
				for _, x := range c.localObjs {
					if x == r {
						dup = true
					}
				}
				if !dup {
					c.localObjs = append(c.localObjs, r)
				}
			}
			tb := env.topBefore
			if tb == "" {
				tb = "top0"
			}
			return CVal{V: Sc{fmt.Sprintf("(> %s %s)", refOf(v), tb), "Bool"}, T: tBool}
		case "ref":
			v := c.evalExpr(env, e.Args[0])
			return CVal{V: Sc{refOf(v), "Int"}, T: types.Typ[types.UnsafePointer]}
		case "is":
			// is(x, "pkg.Type") / is(x, "*pkg.Type"): dynamic type test of an interface value
			v := c.evalExpr(env, e.Args[0])
			iv, ok := v.V.(IfaceV)
			if !ok {
				cerr("is() on non-interface")
			}
			tn := c.evalExpr(env, e.Args[1])
			if tn.K == nil {
				cerr("is(): type name string expected")
			}
			t := c.resolveTypeName(env, constant.StringVal(tn.K))
			return CVal{V: Sc{fmt.Sprintf("(= %s %d)", iv.Tag, c.w.typeTag(t)), "Bool"}, T: tBool}
		case "implements":
			v := c.evalExpr(env, e.Args[0])
			iv, ok := v.V.(IfaceV)
			if !ok {
				cerr("implements() on non-interface")
			}
			tn := c.evalExpr(env, e.Args[1])
			t := c.resolveTypeName(env, constant.StringVal(tn.K))
			pn := "impl_" + sanitizeSym(types.TypeString(t, func(p *types.Package) string { return p.Name() }))
			if !c.ufDecl[pn] {
				c.ufDecl[pn] = true
				c.decls = append(c.decls, fmt.Sprintf("(declare-fun %s (Int) Bool)", pn))
			}
			return CVal{V: Sc{fmt.Sprintf("(and (not (= %s 0)) (%s %s))", iv.Tag, pn, iv.Tag), "Bool"}, T: tBool}
		case "ite":
			cnd := c.evalAsBool(c.evalExpr(env, e.Args[0]))
			a := c.evalExpr(env, e.Args[1])
			b := c.evalExpr(env, e.Args[2])
			if a.K != nil && b.K != nil {
				a = c.materialize(a, nil)
			}
			if a.K != nil {
				a = c.materialize(a, b.T)
			}
			if b.K != nil {
				b = c.materialize(b, a.T)
			}
			return CVal{V: c.ite(cnd, a.V, b.V), T: a.T}
		case "popcount8":
			v := c.materialize(c.evalExpr(env, e.Args[0]), types.Typ[types.Uint8])
			return CVal{V: Sc{popcountTerm(v.V.(Sc).T, 8), BV64}, T: tInt}
		case "popcount64":
			v := c.materialize(c.evalExpr(env, e.Args[0]), types.Typ[types.Uint64])
			return CVal{V: Sc{popcountTerm(v.V.(Sc).T, 64), BV64}, T: tInt}
		}
		if sf, ok := c.w.specFuncs[id.Name]; ok {
			return c.evalSpecFunc(env, sf, e.Args)
		}
	}
	// conversion?
	fv := c.evalExprOrType(env, e.Fun)
	if fv.Ty != nil && len(e.Args) == 1 {
		a := c.evalExpr(env, e.Args[0])
		if a.K != nil {
			if _, _, ok := bvw(fv.Ty); ok || isString(fv.Ty) || isFloat(fv.Ty) {
				return CVal{V: c.constOf(a.K, fv.Ty), T: fv.Ty}
			}
		}
		return CVal{V: c.convertVal(a.V, a.T, fv.Ty, env.state(), "true", token.NoPos), T: fv.Ty}
	}
	// call of a real (pure, loop-free) function or method of the repository in specification context
	return c.evalRealCall(env, e)
}

func (c *Ctx) evalExprOrType(env *CEnv, x ast.Expr) (res CVal) {
	defer func() {
		if r := recover(); r != nil {
			if _, ok := r.(contractError); ok {
				res = CVal{}
				return
			}
			panic(r)
		}
	}()
	switch e := x.(type) {
	case *ast.Ident:
		return c.evalIdent(env, e.Name)
	case *ast.SelectorExpr:
		if id, ok := e.X.(*ast.Ident); ok {
			b := c.evalIdent(env, id.Name)
			if b.Pkg != nil {
				if obj := b.Pkg.Scope().Lookup(e.Sel.Name); obj != nil {
					if tn, ok := obj.(*types.TypeName); ok {
						return CVal{Ty: tn.Type()}
					}
				}
			}
		}
	case *ast.ParenExpr:
		return c.evalExprOrType(env, e.X)
	}
	return CVal{}
}

func (c *Ctx) resolveTypeName(env *CEnv, s string) types.Type {
	ptr := strings.HasPrefix(s, "*")
	s = strings.TrimPrefix(s, "*")
	var t types.Type
	if i := strings.LastIndex(s, "."); i >= 0 {
		pk := c.evalIdent(env, s[:i])
		if pk.Pkg == nil {
			cerr("unknown package in type %q", s)
		}
		obj := pk.Pkg.Scope().Lookup(s[i+1:])
		if obj == nil {
			cerr("unknown type %q", s)
		}
		t = obj.Type()
	} else {
		if bt, ok := basicTypes[s]; ok {
			t = bt
		} else if strings.HasPrefix(s, "[]") {
			t = types.NewSlice(c.resolveTypeName(env, s[2:]))
		} else if env.pkg != nil && env.pkg.Scope().Lookup(s) != nil {
			t = env.pkg.Scope().Lookup(s).Type()
		} else {
			cerr("unknown type %q", s)
		}
	}
	if ptr {
		t = types.NewPointer(t)
	}
	return t
}

func (c *Ctx) evalSpecFunc(env *CEnv, sf *SpecFunc, args []ast.Expr) CVal {
	if len(args) != len(sf.Params) {
		cerr("spec %s: %d arguments, want %d", sf.Name, len(args), len(sf.Params))
	}
	if env.depth > 20 {
		cerr("spec function recursion")
	}
	ne := *env
	ne.depth++
	ne.bound = map[string]CVal{}
	var sig specSig
	for i, p := range sf.Params {
		ne.bound[p] = c.evalExpr(env, args[i])
		sig.params = append(sig.params, ne.bound[p].T)
	}
	// spec bodies see only their parameters (plus globals / constants)
	ne.lookup = nil
	r := c.evalExpr(&ne, sf.Body)
	sig.result = r.T
	if c.specSigs == nil {
		c.specSigs = map[string]specSig{}
	}
	if _, ok := c.specSigs[sf.Name]; !ok {
		c.specSigs[sf.Name] = sig
	}
	return r
}

type specSig struct {
	params []types.Type
	result types.Type
}

// evalRealCall executes a real repository function symbolically inside a contract (specification use).
func (c *Ctx) evalRealCall(env *CEnv, e *ast.CallExpr) CVal {
	var fn *ssa.Function
	var args []Val
	switch f := e.Fun.(type) {
	case *ast.SelectorExpr:
		if id, ok := f.X.(*ast.Ident); ok {
			if _, isBound := env.bound[id.Name]; !isBound {
				b := func() (r CVal) {
					defer func() {
						if x := recover(); x != nil {
							if _, ok := x.(contractError); ok {
								r = CVal{}
								return
							}
							panic(x)
						}
					}()
					return c.evalIdent(env, id.Name)
				}()
				if b.Pkg != nil {
					if pk := c.w.prog.Package(b.Pkg); pk != nil {
						fn = pk.Func(f.Sel.Name)
					}
					if fn == nil {
						cerr("function %s.%s not found", b.Pkg.Name(), f.Sel.Name)
					}
					break
				}
			}
		}
		recv := c.evalExpr(env, f.X)
		recv = c.materialize(recv, nil)
		ms := c.w.prog.MethodSets.MethodSet(recv.T)
		sel := ms.Lookup(nil, f.Sel.Name)
		if sel == nil {
			// unexported: need package
			if n, ok := derefNamed(recv.T); ok {
				sel = ms.Lookup(n.Obj().Pkg(), f.Sel.Name)
			}
		}
		if sel == nil {
			cerr("method %s not found on %s", f.Sel.Name, recv.T)
		}
		fn = c.w.prog.MethodValue(sel)
		args = append(args, recv.V)
	case *ast.Ident:
		if env.pkg != nil {
			if pk := c.w.prog.Package(env.pkg); pk != nil {
				fn = pk.Func(f.Name)
			}
		}
		if fn == nil {
			cerr("unknown function %s", f.Name)
		}
	default:
		cerr("unsupported call in contract")
	}
	if fn == nil || len(fn.Blocks) == 0 {
		cerr("function has no body")
	}
	if !noLoops(fn) {
		cerr("contract calls %s which has loops", fnName(fn))
	}
	off := len(args)
	for i, a := range e.Args {
		v := c.evalExpr(env, a)
		pt := fn.Params[off+i].Type()
		v = c.materialize(v, pt)
		args = append(args, v.V)
	}
	saved := c.specMode
	c.specMode = true
	sn := c.noName
	defer func() { c.specMode = saved; c.noName = sn }()
	res, _, _ := c.exec(fn, args, env.state().clone(), "true", 1)
	var rt types.Type
	if fn.Signature.Results().Len() == 1 {
		rt = fn.Signature.Results().At(0).Type()
	} else {
		rt = fn.Signature.Results()
	}
	c.notes["spec-call:"+fnName(fn)]++
	return CVal{V: res, T: rt}
}

func derefNamed(t types.Type) (*types.Named, bool) {
	if p, ok := t.(*types.Pointer); ok {
		t = p.Elem()
	}
	n, ok := t.(*types.Named)
	return n, ok
}

// popcountTerm: number of one bits of the w-bit term x (w <= 64... the count fits in 8 bits), as a 64-bit value.
// The additions are done in 8-bit arithmetic (no overflow: the count is at most 64) and zero-extended once.
func popcountTerm(x string, w int) string {
	var parts []string
	for i := 0; i < w; i++ {
		parts = append(parts, fmt.Sprintf("((_ zero_extend 7) ((_ extract %d %d) %s))", i, i, x))
	}
	return "((_ zero_extend 56) (bvadd " + strings.Join(parts, " ") + "))"
}
