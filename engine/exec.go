// exec.go - symbolic execution of the SSA control-flow graph in passive form.
package main

import (
	"fmt"
	"go/ast"
	"go/token"
	"go/types"
	"sort"
	"strings"

	"golang.org/x/tools/go/ssa"
)

type Frame struct {
	fn     *ssa.Function
	env    map[ssa.Value]Val
	depth  int
	defers []deferred
	isRoot bool
	loops  map[int]*loopInfo // header block index -> info
}

type deferred struct {
	call  *ssa.Defer
	reach string
	args  []Val
	fnv   Val
	bind  []Val // values of the captured variables of a deferred closure
}

type loopInfo struct {
	header  int
	blocks  map[int]bool
	ordinal int
	stmt    ast.Node
	variant []string // entry values of the decreases tuple
	varText string
	isRange bool
}

type edge struct {
	st   *State
	cond string
	pred int
}

func backEdges(fn *ssa.Function) map[[2]int]bool {
	back := map[[2]int]bool{}
	for _, b := range fn.Blocks {
		for _, s := range b.Succs {
			if s.Dominates(b) {
				back[[2]int{b.Index, s.Index}] = true
			}
		}
	}
	return back
}

func noLoops(fn *ssa.Function) bool { return len(backEdges(fn)) == 0 }

// findLoops computes natural loops and maps them to source loop ordinals.
func findLoops(fn *ssa.Function, fset *token.FileSet) map[int]*loopInfo {
	back := backEdges(fn)
	loops := map[int]*loopInfo{}
	for e := range back {
		h := e[1]
		li := loops[h]
		if li == nil {
			li = &loopInfo{header: h, blocks: map[int]bool{h: true}, ordinal: -1}
			loops[h] = li
		}
		var stack []*ssa.BasicBlock
		if !li.blocks[e[0]] {
			li.blocks[e[0]] = true
			stack = append(stack, fn.Blocks[e[0]])
		}
		for len(stack) > 0 {
			b := stack[len(stack)-1]
			stack = stack[:len(stack)-1]
			for _, p := range b.Preds {
				if !li.blocks[p.Index] {
					li.blocks[p.Index] = true
					stack = append(stack, p)
				}
			}
		}
	}
	if len(loops) == 0 {
		return loops
	}
	// source loop statements in source order
	var stmts []ast.Node
	if syn := fn.Syntax(); syn != nil {
		ast.Inspect(syn, func(n ast.Node) bool {
			switch x := n.(type) {
			case *ast.FuncLit:
				if n != syn {
					return false
				}
			case *ast.ForStmt, *ast.RangeStmt:
				stmts = append(stmts, x)
			}
			return true
		})
	}
	// assign: inner loops first (fewer blocks), smallest enclosing unassigned statement
	var lis []*loopInfo
	for _, li := range loops {
		lis = append(lis, li)
	}
	sort.Slice(lis, func(i, j int) bool {
		if len(lis[i].blocks) != len(lis[j].blocks) {
			return len(lis[i].blocks) < len(lis[j].blocks)
		}
		return lis[i].header < lis[j].header
	})
	taken := map[int]bool{}
	for _, li := range lis {
		var lo, hi token.Pos
		for bi := range li.blocks {
			for _, ins := range fn.Blocks[bi].Instrs {
				p := ins.Pos()
				if !p.IsValid() {
					continue
				}
				if lo == 0 || p < lo {
					lo = p
				}
				if p > hi {
					hi = p
				}
			}
		}
		best := -1
		for k, s := range stmts {
			if taken[k] {
				continue
			}
			if s.Pos() <= lo && hi <= s.End() {
				if best < 0 || (s.End()-s.Pos()) < (stmts[best].End()-stmts[best].Pos()) {
					best = k
				}
			}
		}
		if best >= 0 {
			taken[best] = true
			li.ordinal = best
			li.stmt = stmts[best]
			if _, ok := stmts[best].(*ast.RangeStmt); ok {
				li.isRange = true
			}
		}
	}
	return loops
}

// exec symbolically executes fn from state st0 under path condition reach0.
// It returns the merged return value, exit state and exit reach condition.
func (c *Ctx) exec(fn *ssa.Function, args []Val, st0 *State, reach0 string, depth int) (Val, *State, string) {
	if len(fn.Blocks) == 0 {
		bail("no body: %s", fn)
	}
	fr := &Frame{fn: fn, env: map[ssa.Value]Val{}, depth: depth, isRoot: depth == 0}
	if depth == 0 && !c.specMode {
		c.rootFrame = fr
	}
	for i, p := range fn.Params {
		fr.env[p] = args[i]
	}
	if len(fn.FreeVars) > 0 {
		if c.pendingBindings == nil || len(c.pendingBindings) != len(fn.FreeVars) {
			bail("closure with free variables")
		}
		for i, fv := range fn.FreeVars {
			fr.env[fv] = c.pendingBindings[i]
		}
		c.pendingBindings = nil
	}
	back := backEdges(fn)
	if depth > 0 && len(back) > 0 {
		bail("loop in inlined callee")
	}
	fr.loops = findLoops(fn, c.fset)
	// reverse post-order
	var order []*ssa.BasicBlock
	seen := map[int]bool{}
	var dfs func(b *ssa.BasicBlock)
	dfs = func(b *ssa.BasicBlock) {
		seen[b.Index] = true
		for i := len(b.Succs) - 1; i >= 0; i-- {
			s := b.Succs[i]
			if !seen[s.Index] && !back[[2]int{b.Index, s.Index}] {
				dfs(s)
			}
		}
		order = append(order, b)
	}
	dfs(fn.Blocks[0])
	for i, j := 0, len(order)-1; i < j; i, j = i+1, j-1 {
		order[i], order[j] = order[j], order[i]
	}
	in := map[int][]edge{}
	in[0] = []edge{{st0, reach0, -1}}
	var rets []Val
	var retSt []*State
	var retC []string
	if fn.Recover != nil {
		c.notes["recover-block"]++
	}
	for _, b := range order {
		es := in[b.Index]
		if len(es) == 0 {
			continue
		}
		var conds []string
		var sts []*State
		for _, e := range es {
			conds = append(conds, e.cond)
			sts = append(sts, e.st)
		}
		reach := conds[0]
		if len(conds) > 1 {
			reach = c.name("R", "Bool", or(conds...))
			if c.reachParts == nil {
				c.reachParts = map[string][]string{}
			}
			c.reachParts[reach] = append([]string{}, conds...)
		}
		st := c.mergeStates(conds, sts)
		if li, ok := fr.loops[b.Index]; ok {
			c.loopHead(fr, li, b, st, reach)
		}
		// phis
		for _, ins := range b.Instrs {
			phi, ok := ins.(*ssa.Phi)
			if !ok {
				break
			}
			var v Val
			for _, e := range es {
				for i, p := range b.Preds {
					if p.Index != e.pred {
						continue
					}
					pv := c.val(fr, phi.Edges[i])
					if v == nil {
						v = pv
					} else {
						v = c.ite(e.cond, pv, v)
					}
					break
				}
			}
			if v == nil {
				bail("phi with no incoming value (loop phi)")
			}
			fr.env[phi] = v
		}
		goEdge := func(from *ssa.BasicBlock, to *ssa.BasicBlock, s *State, cond string, pos token.Pos) {
			if back[[2]int{from.Index, to.Index}] {
				c.loopBack(fr, fr.loops[to.Index], s, cond, pos)
				return
			}
			if fr.isRoot {
				for _, li := range fr.loops {
					if li.blocks[from.Index] && !li.blocks[to.Index] && from.Index != li.header {
						if sp := c.loopSpec(li); sp != nil && sp.CutExits {
							c.loopExitCut(fr, li, s, cond, pos)
						}
					}
				}
			}
			in[to.Index] = append(in[to.Index], edge{s, cond, from.Index})
			if fr.isRoot && !c.specMode {
				c.edgeConds = append(c.edgeConds, edgeCond{cond: cond, at: c.fset.Position(pos), from: from.Index, to: to.Index})
			}
		}
		for _, ins := range b.Instrs {
			switch x := ins.(type) {
			case *ssa.Phi, *ssa.DebugRef:
			case *ssa.If:
				cv := c.val(fr, x.Cond).(Sc).T
				t, f := b.Succs[0], b.Succs[1]
				ct := c.name("R", "Bool", and(reach, cv))
				cf := c.name("R", "Bool", and(reach, not(cv)))
				goEdge(b, t, st.clone(), ct, x.Pos())
				goEdge(b, f, st.clone(), cf, x.Pos())
			case *ssa.Jump:
				goEdge(b, b.Succs[0], st, reach, x.Pos())
			case *ssa.Return:
				var rv Val
				if len(x.Results) == 1 {
					rv = c.val(fr, x.Results[0])
				} else if len(x.Results) > 1 {
					tv := TupleV{}
					for _, r := range x.Results {
						tv.V = append(tv.V, c.val(fr, r))
					}
					rv = tv
				}
				rets = append(rets, normPtr(rv))
				retSt = append(retSt, st)
				retC = append(retC, reach)
			case *ssa.Panic:
				c.oblige("panic", "", reach, "false", x.Pos(), "panic(...) unreachable")
			default:
				c.instr(fr, st, reach, ins)
			}
		}
	}
	if len(rets) == 0 {
		return nil, st0, "false"
	}
	out := c.mergeStates(retC, retSt)
	rv := rets[0]
	for i := 1; i < len(rets); i++ {
		if rv != nil {
			rv = c.ite(retC[i], rets[i], rv)
		}
	}
	rr := retC[0]
	if len(retC) > 1 {
		rr = c.name("R", "Bool", or(retC...))
	}
	return rv, out, rr
}

// normPtr converts heap pointers to opaque refs in returned values.
func normPtr(v Val) Val {
	switch x := v.(type) {
	case PtrV:
		if r, ok := ptrAsRef(x); ok {
			return r
		}
	case TupleV:
		o := TupleV{}
		for _, e := range x.V {
			o.V = append(o.V, normPtr(e))
		}
		return o
	}
	return v
}

// ---------- loops ----------

// writtenInLoop collects the local allocs stored in the loop and whether heap/mem may change.
func (c *Ctx) loopWrites(fr *Frame, li *loopInfo) (locals map[*ssa.Alloc]bool, heapAll bool) {
	fn := fr.fn
	locals = map[*ssa.Alloc]bool{}
	for bi := range li.blocks {
		for _, ins := range fn.Blocks[bi].Instrs {
			switch x := ins.(type) {
			case *ssa.Store:
				if a := rootAlloc(x.Addr); a != nil {
					locals[a] = true
				} else {
					heapAll = true
				}
			case *ssa.Call:
				if _, isB := x.Call.Value.(*ssa.Builtin); isB {
					if x.Call.Value.Name() == "copy" {
						heapAll = true
					}
					continue
				}
				if c.callIsPure(fr, x) {
					continue
				}
				heapAll = true
			case *ssa.MapUpdate:
			case *ssa.Defer, *ssa.Go:
				heapAll = true
			}
		}
	}
	return
}

func rootAlloc(v ssa.Value) *ssa.Alloc {
	for {
		switch x := v.(type) {
		case *ssa.Alloc:
			if x.Heap {
				return nil
			}
			return x
		case *ssa.FieldAddr:
			v = x.X
		case *ssa.IndexAddr:
			if _, ok := x.X.Type().Underlying().(*types.Pointer); ok {
				v = x.X
			} else {
				return nil
			}
		default:
			return nil
		}
	}
}

func (c *Ctx) loopSpec(li *loopInfo) *LoopSpec {
	if c.contract == nil || c.curFn != c.root || li.ordinal < 0 {
		return nil
	}
	return c.contract.Loops[li.ordinal]
}

// loopExitCut cuts an exit edge that leaves the loop from inside its body (break): the invariants (and the loop frame) are
// checked in the state of the edge, then the heap effects of the loop are forgotten and the invariants assumed, exactly as
// at the loop head. Locals keep their values. Sound (the continuation is verified from a weaker state); it shortens the
// proof context of everything after the loop to "invariant + exit", like a normal exit through the head.
func (c *Ctx) loopExitCut(fr *Frame, li *loopInfo, st *State, reach string, pos token.Pos) {
	spec := c.loopSpec(li)
	if li.stmt != nil {
		pos = li.stmt.Pos()
	}
	env := c.contractEnvLocal(fr, st)
	c.ordinal["cut|"+fmt.Sprint(li.ordinal)]++
	nth := c.ordinal["cut|"+fmt.Sprint(li.ordinal)]
	for k, inv := range spec.Invs {
		f := c.evalBool(env, inv.Expr, inv.Text)
		if cj := splitDeep(f); len(cj) > 1 && len(cj) <= 40 {
			for j, g := range cj {
				c.obligeProps("inv-exit", fmt.Sprintf("loop%d.%d/%d.%d", li.ordinal, nth, k, j), reach, g, pos, fmt.Sprintf("conjunct %d of: %s", j, inv.Text), inv.Props)
			}
			continue
		}
		c.obligeProps("inv-exit", fmt.Sprintf("loop%d.%d/%d", li.ordinal, nth, k), reach, f, pos, inv.Text, inv.Props)
	}
	eff := newEffects()
	c.regionEffects(eff, fr.fn, li.blocks, 0)
	hasFrame := c.contract != nil && c.contract.HasMod && !eff.all
	if hasFrame {
		c.frameTop = c.loopTop[li.header]
		c.frameLocals = true
		c.groupedFrame("inv-exit", fmt.Sprintf("loop%d.%d/frame:", li.ordinal, nth), c.contract, paramNames(fr.fn), c.entryArgs, st, reach, pos, "loop exit preserves the frame", true)
		c.frameLocals = false
	}
	for _, m := range eff.mat {
		m(c, st)
	}
	c.touchAll(st)
	before := st.clone()
	c.havocEffects(st, eff, reach)
	if hasFrame {
		c.frameTop = c.loopTop[li.header]
		c.skipFrameInit = true
		c.loopFrameHavoc(c.contract, paramNames(fr.fn), c.entryArgs, before, st, reach, pos, li.ordinal, loopAllocKeys(fr.fn, li.blocks))
		c.skipFrameInit = false
	}
	env = c.contractEnvLocal(fr, st)
	for _, inv := range spec.Invs {
		if c.hidden(inv) {
			continue
		}
		c.assume(reach, c.evalBool(env, inv.Expr, inv.Text))
	}
	c.notes["loop-exit-cut"]++
}

func (c *Ctx) loopHead(fr *Frame, li *loopInfo, b *ssa.BasicBlock, st *State, reach string) {
	c.notes["loops"]++
	spec := c.loopSpec(li)
	var pos token.Pos
	for _, ins := range b.Instrs {
		if ins.Pos().IsValid() {
			pos = ins.Pos()
			break
		}
	}
	if li.stmt != nil {
		pos = li.stmt.Pos()
	}
	if fr.isRoot && li.ordinal >= 0 {
		if c.loopEntryEnv == nil {
			c.loopEntryEnv = map[int]*CEnv{}
		}
		c.loopEntryEnv[li.ordinal] = c.contractEnvLocal(fr, st.clone())
	}
	env := c.contractEnvLocal(fr, st)
	// 1. invariants hold on entry
	if spec != nil {
		for k, inv := range spec.Invs {
			f := c.evalBool(env, inv.Expr, inv.Text)
			if cj := splitDeep(f); len(cj) > 1 && len(cj) <= 40 {
				for j, g := range cj {
					c.obligeProps("inv-init", fmt.Sprintf("loop%d/%d.%d", li.ordinal, k, j), reach, g, pos, fmt.Sprintf("conjunct %d of: %s", j, inv.Text), inv.Props)
				}
				continue
			}
			c.obligeProps("inv-init", fmt.Sprintf("loop%d/%d", li.ordinal, k), reach, f, pos, inv.Text, inv.Props)
		}
	}
	var cands []cand
	if c.useH && fr.isRoot {
		cands = c.genCands(fr, li, st)
		for _, cd := range cands {
			v := c.load(st, PtrV{Kind: 0, Alloc: cd.a, Elem: cd.a.Type().(*types.Pointer).Elem()}).(Sc).T
			c.obls = append(c.obls, Obl{Name: "H-init|" + cd.id, Kind: "H-init", HId: cd.id, Reach: reach, Cond: cd.mk(v), NDecl: len(c.decls), NAsm: len(c.asms), Fn: fnName(c.root)})
		}
		if c.hcands == nil {
			c.hcands = map[int][]cand{}
		}
		c.hcands[li.header] = cands
	}
	// 2. havoc what the loop writes
	locals, heapAll := c.loopWrites(fr, li)
	var as []*ssa.Alloc
	for a := range locals {
		as = append(as, a)
	}
	sort.Slice(as, func(i, j int) bool { return as[i].Pos() < as[j].Pos() })
	for _, a := range as {
		if v, ok := st.locals[a]; ok {
			st.locals[a] = c.freshLike(v, "hv_"+a.Comment)
		}
	}
	_ = heapAll
	eff := newEffects()
	c.regionEffects(eff, fr.fn, li.blocks, 0)
	if eff.all {
		c.notes["loop-havoc-all: "+eff.why]++
	}
	for _, m := range eff.mat {
		m(c, st)
	}
	c.touchAll(st)
	before := st.clone()
	c.havocEffects(st, eff, reach)
	// 2b. frame invariant derived from the function's `modifies` clause: the loop changes nothing else
	if c.loopTop == nil {
		c.loopTop = map[int]string{}
	}
	c.loopTop[li.header] = c.top
	if fr.isRoot && c.contract != nil && c.contract.HasMod && !eff.all {
		c.frameTop = c.top
		c.loopFrameHavoc(c.contract, paramNames(fr.fn), c.entryArgs, before, st, reach, pos, li.ordinal, loopAllocKeys(fr.fn, li.blocks))
	}
	// 3. assume invariants
	if fr.isRoot && li.ordinal >= 0 {
		// the state at the head of the current iteration: `athead(N, e)` in the invariants of loops nested inside loop N
		if c.loopHeadEnv == nil {
			c.loopHeadEnv = map[int]*CEnv{}
		}
		c.loopHeadEnv[li.ordinal] = c.contractEnvLocal(fr, st.clone())
	}
	env = c.contractEnvLocal(fr, st)
	if spec != nil {
		for _, inv := range spec.Invs {
			if c.hidden(inv) {
				continue
			}
			c.assume(reach, c.evalBool(env, inv.Expr, inv.Text))
		}
	}
	for _, cd := range cands {
		v := c.load(st, PtrV{Kind: 0, Alloc: cd.a, Elem: cd.a.Type().(*types.Pointer).Elem()}).(Sc).T
		c.assume(reach, cd.mk(v))
	}
	// 4. termination measure at the head
	li.variant = nil
	if spec != nil && len(spec.Decr) > 0 {
		for _, d := range spec.Decr {
			cv := c.evalExpr(env, d.Expr)
			li.variant = append(li.variant, c.toBV64(cv))
			li.varText = d.Text
		}
	} else if !li.isRange && fr.isRoot {
		c.variantEntry[li.header] = c.autoMeasures(fr, li, st)
	}
}

type opf struct {
	text string
	f    func(st *State) string
}

// autoMeasures derives candidate termination measures (differences of compared integer operands).
func (c *Ctx) autoMeasures(fr *Frame, li *loopInfo, st *State) []autoMeasure {
	fn := fr.fn
	var resolve func(v ssa.Value, depth int) *opf
	resolve = func(v ssa.Value, depth int) *opf {
		if depth > 4 {
			return nil
		}
		if _, _, isInt := bvw(v.Type()); !isInt {
			return nil
		}
		switch x := v.(type) {
		case *ssa.Const:
			t := c.toI64(c.constVal(x), x.Type())
			return &opf{exprText(x), func(*State) string { return t }}
		case *ssa.UnOp:
			if x.Op != token.MUL {
				return nil
			}
			if a, ok := x.X.(*ssa.Alloc); ok && !a.Heap {
				et := a.Type().(*types.Pointer).Elem()
				return &opf{a.Comment, func(s *State) string {
					lv, ok := s.locals[a]
					if !ok {
						return ""
					}
					return c.toI64(lv, et)
				}}
			}
			if fa, ok := x.X.(*ssa.FieldAddr); ok {
				bv, ok := fr.env[fa.X]
				if !ok {
					// base may be a load of a non-modified local pointer
					return nil
				}
				r, ok := ptrAsRef(bv)
				if !ok {
					return nil
				}
				sty := fa.X.Type().Underlying().(*types.Pointer).Elem()
				ft := sty.Underlying().(*types.Struct).Field(fa.Field).Type()
				p := PtrV{Kind: 1, Ref: r.T, Root: sty, Path: []PathEl{{Field: fa.Field}}, Elem: ft}
				return &opf{exprText(fa), func(s *State) string { return c.toI64(c.load(s, p), ft) }}
			}
			return nil
		case *ssa.Convert:
			in := resolve(x.X, depth+1)
			if in == nil {
				return nil
			}
			wf, sf, _ := bvw(x.X.Type())
			wt, _, _ := bvw(x.Type())
			if wt < wf {
				return nil
			}
			_ = sf
			// widening conversion: value preserved per source signedness (already applied by toI64 of the source)
			return &opf{in.text, in.f}
		case *ssa.Call:
			if b, ok := x.Call.Value.(*ssa.Builtin); ok && b.Name() == "len" {
				if u, ok := x.Call.Args[0].(*ssa.UnOp); ok && u.Op == token.MUL {
					if a, ok := u.X.(*ssa.Alloc); ok && !a.Heap {
						return &opf{"len(" + a.Comment + ")", func(s *State) string {
							switch lv := s.locals[a].(type) {
							case SliceV:
								return lv.Len
							case StrV:
								return lv.Len
							}
							return ""
						}}
					}
				}
				if pv, ok := fr.env[x.Call.Args[0]]; ok {
					switch lv := pv.(type) {
					case SliceV:
						return &opf{"len(" + exprText(x.Call.Args[0]) + ")", func(*State) string { return lv.Len }}
					case StrV:
						return &opf{"len(" + exprText(x.Call.Args[0]) + ")", func(*State) string { return lv.Len }}
					}
				}
			}
			return nil
		case *ssa.BinOp:
			if x.Op != token.SUB && x.Op != token.ADD {
				return nil
			}
			if w, _, _ := bvw(x.Type()); w != 64 {
				return nil
			}
			l, r := resolve(x.X, depth+1), resolve(x.Y, depth+1)
			if l == nil || r == nil {
				return nil
			}
			op := "bvadd"
			if x.Op == token.SUB {
				op = "bvsub"
			}
			return &opf{"(" + l.text + " " + x.Op.String() + " " + r.text + ")", func(s *State) string {
				a, b := l.f(s), r.f(s)
				if a == "" || b == "" {
					return ""
				}
				return fmt.Sprintf("(%s %s %s)", op, a, b)
			}}
		}
		if ins, ok := v.(ssa.Instruction); ok && ins.Block() != nil && li.blocks[ins.Block().Index] {
			return nil
		}
		if ev, ok := fr.env[v]; ok {
			if sc, ok := ev.(Sc); ok && isBV(sc.S) {
				t := c.toI64(sc, v.Type())
				return &opf{exprText(v), func(*State) string { return t }}
			}
		}
		return nil
	}
	var out []autoMeasure
	seen := map[string]bool{}
	var bis []int
	for bi := range li.blocks {
		bis = append(bis, bi)
	}
	sort.Ints(bis)
	for _, bi := range bis {
		for _, ins := range fn.Blocks[bi].Instrs {
			bo, ok := ins.(*ssa.BinOp)
			if !ok {
				continue
			}
			switch bo.Op {
			case token.LSS, token.LEQ, token.GTR, token.GEQ, token.NEQ:
			default:
				continue
			}
			l, r := resolve(bo.X, 0), resolve(bo.Y, 0)
			if l == nil || r == nil {
				continue
			}
			for _, pr := range [][2]*opf{{r, l}, {l, r}} {
				a, b := pr[0], pr[1]
				text := a.text + " - " + b.text
				if seen[text] {
					continue
				}
				seen[text] = true
				mk := func(s *State) string {
					x, y := a.f(s), b.f(s)
					if x == "" || y == "" {
						return ""
					}
					return fmt.Sprintf("(bvsub %s %s)", x, y)
				}
				ent := mk(st)
				if ent == "" {
					continue
				}
				out = append(out, autoMeasure{text: text, entry: c.name("vm", BV64, ent), eval: mk})
			}
		}
	}
	return out
}

func (c *Ctx) loopBack(fr *Frame, li *loopInfo, st *State, reach string, pos token.Pos) {
	spec := c.loopSpec(li)
	if li.stmt != nil {
		pos = li.stmt.Pos()
	}
	env := c.contractEnvLocal(fr, st)
	if spec != nil {
		for k, inv := range spec.Invs {
			f := c.evalBool(env, inv.Expr, inv.Text)
			if cj := splitDeep(f); len(cj) > 1 && len(cj) <= 40 {
				for j, g := range cj {
					c.obligeProps("inv-pres", fmt.Sprintf("loop%d/%d.%d", li.ordinal, k, j), reach, g, pos, fmt.Sprintf("conjunct %d of: %s", j, inv.Text), inv.Props)
				}
				continue
			}
			c.obligeProps("inv-pres", fmt.Sprintf("loop%d/%d", li.ordinal, k), reach, f, pos, inv.Text, inv.Props)
		}
		if len(spec.Decr) > 0 {
			var now []string
			for _, d := range spec.Decr {
				now = append(now, c.toBV64(c.evalExpr(env, d.Expr)))
			}
			c.oblige("variant", fmt.Sprintf("loop%d", li.ordinal), reach, lexLess(now, li.variant), pos, "decreases "+li.varText)
		}
	}
	if fr.isRoot && c.contract != nil && c.contract.HasMod {
		names := paramNames(fr.fn)
		c.frameTop = c.loopTop[li.header]
		c.frameLocals = true
		c.groupedFrame("inv-pres", fmt.Sprintf("loop%d/frame:", li.ordinal), c.contract, names, c.entryArgs, st, reach, pos, "loop preserves the frame", true)
		c.frameLocals = false
	}
	for _, cd := range c.hcands[li.header] {
		v := c.load(st, PtrV{Kind: 0, Alloc: cd.a, Elem: cd.a.Type().(*types.Pointer).Elem()}).(Sc).T
		c.obls = append(c.obls, Obl{Name: "H-pres|" + cd.id, Kind: "H-pres", HId: cd.id, Reach: reach, Cond: cd.mk(v), NDecl: len(c.decls), NAsm: len(c.asms), Fn: fnName(c.root)})
	}
	// automatically tried variants (range loops terminate by construction)
	if (spec == nil || len(spec.Decr) == 0) && !li.isRange && fr.isRoot {
		c.autoVariant(fr, li, st, reach, pos)
	}
}

// lexLess: now < old lexicographically, each component bounded below by 0 (signed 64-bit).
func lexLess(now, old []string) string {
	if len(now) == 0 {
		return "false"
	}
	first := fmt.Sprintf("(and (bvslt %s %s) (bvsge %s %s))", now[0], old[0], old[0], i64(0))
	if len(now) == 1 {
		return first
	}
	return fmt.Sprintf("(or %s (and (= %s %s) %s))", first, now[0], old[0], lexLess(now[1:], old[1:]))
}

// ---------- Houdini candidates ----------

type cand struct {
	id string
	a  *ssa.Alloc
	mk func(v string) string
}

func (c *Ctx) genCands(fr *Frame, li *loopInfo, st *State) []cand {
	fn := fr.fn
	lb := li.blocks
	mod := map[*ssa.Alloc]bool{}
	loaded := map[*ssa.Alloc]bool{}
	for bi := range lb {
		for _, ins := range fn.Blocks[bi].Instrs {
			switch x := ins.(type) {
			case *ssa.Store:
				if a, ok := x.Addr.(*ssa.Alloc); ok && !a.Heap {
					mod[a] = true
				}
			case *ssa.UnOp:
				if a, ok := x.X.(*ssa.Alloc); ok && x.Op == token.MUL && !a.Heap {
					loaded[a] = true
				}
			}
		}
	}
	type bound struct {
		name string
		term string
		w    int
	}
	var bounds []bound
	seenB := map[string]bool{}
	addB := func(name, term string, w int) {
		if !seenB[term] {
			seenB[term] = true
			bounds = append(bounds, bound{name, term, w})
		}
	}
	for bi := range lb {
		for _, ins := range fn.Blocks[bi].Instrs {
			bo, ok := ins.(*ssa.BinOp)
			if !ok {
				continue
			}
			switch bo.Op {
			case token.LSS, token.LEQ, token.GTR, token.GEQ, token.EQL, token.NEQ:
			default:
				continue
			}
			for _, opnd := range []ssa.Value{bo.X, bo.Y} {
				w, _, isInt := bvw(opnd.Type())
				if !isInt {
					continue
				}
				if k, ok := opnd.(*ssa.Const); ok {
					addB("const"+k.Value.String(), c.constVal(k).(Sc).T, w)
					continue
				}
				if ins2, ok := opnd.(ssa.Instruction); ok && ins2.Block() != nil && !lb[ins2.Block().Index] {
					if v, ok := fr.env[opnd]; ok {
						if sc, ok := v.(Sc); ok {
							addB(opnd.Name(), sc.T, w)
						}
					}
				}
				if _, ok := opnd.(*ssa.Parameter); ok {
					if sc, ok := fr.env[opnd].(Sc); ok {
						addB(opnd.Name(), sc.T, w)
					}
				}
			}
		}
	}
	var las []*ssa.Alloc
	for a := range loaded {
		las = append(las, a)
	}
	sort.Slice(las, func(i, j int) bool { return las[i].Pos() < las[j].Pos() })
	for _, a := range las {
		if mod[a] {
			continue
		}
		v, ok := st.locals[a]
		if !ok {
			continue
		}
		switch x := v.(type) {
		case SliceV:
			addB("len("+a.Comment+")", x.Len, 64)
		case StrV:
			addB("len("+a.Comment+")", x.Len, 64)
		case Sc:
			if w, _, isInt := bvw(a.Type().(*types.Pointer).Elem()); isInt {
				addB(a.Comment, x.T, w)
			}
		}
	}
	var out []cand
	key := fmt.Sprintf("loop%d", li.ordinal)
	var mas []*ssa.Alloc
	for a := range mod {
		mas = append(mas, a)
	}
	sort.Slice(mas, func(i, j int) bool { return mas[i].Pos() < mas[j].Pos() })
	for _, a := range mas {
		et := a.Type().(*types.Pointer).Elem()
		w, signed, isInt := bvw(et)
		if !isInt {
			continue
		}
		ev, ok := st.locals[a]
		if !ok {
			continue
		}
		entry := ev.(Sc).T
		le, lt := "bvule", "bvult"
		if signed {
			le, lt = "bvsle", "bvslt"
		}
		add := func(id string, mk func(v string) string) {
			full := key + "|" + a.Comment + "|" + id
			c.hcount[full] = true
			if c.dropped[full] {
				return
			}
			out = append(out, cand{id: full, a: a, mk: mk})
		}
		add(">=entry", func(v string) string { return fmt.Sprintf("(%s %s %s)", le, entry, v) })
		add("<=entry", func(v string) string { return fmt.Sprintf("(%s %s %s)", le, v, entry) })
		if signed {
			add(">=0", func(v string) string { return fmt.Sprintf("(bvsge %s %s)", v, bvlit(w, 0)) })
		}
		for _, b := range bounds {
			if b.w != w {
				continue
			}
			b := b
			add("<="+b.name, func(v string) string { return fmt.Sprintf("(%s %s %s)", le, v, b.term) })
			add("<"+b.name, func(v string) string { return fmt.Sprintf("(%s %s %s)", lt, v, b.term) })
			add(">="+b.name, func(v string) string { return fmt.Sprintf("(%s %s %s)", le, b.term, v) })
			if signed {
				add("-1<=..<"+b.name, func(v string) string {
					return fmt.Sprintf("(and (%s %s %s) (%s %s %s))", lt, v, b.term, le, bvlit(w, ^uint64(0)), v)
				})
			}
		}
	}
	sort.Slice(out, func(i, j int) bool { return out[i].id < out[j].id })
	return out
}

// autoVariant tries simple termination measures derived from the comparisons in the loop:
// for a comparison x < y / x <= y / x != y etc. the candidates y-x and x-y.
func (c *Ctx) autoVariant(fr *Frame, li *loopInfo, st *State, reach string, pos token.Pos) {
	// measures are evaluated on header-entry state (recorded in variantEntry) and on the back edge state.
	ve := c.variantEntry[li.header]
	if len(ve) == 0 {
		c.oblige("variant", fmt.Sprintf("loop%d", li.ordinal), reach, "false", pos, "no termination measure could be inferred (write: loop N decreases ...)")
		return
	}
	var alts []string
	var texts []string
	for _, m := range ve {
		now := m.eval(st)
		if now == "" {
			continue
		}
		alts = append(alts, fmt.Sprintf("(and (bvslt %s %s) (bvsge %s %s))", now, m.entry, m.entry, i64(0)))
		texts = append(texts, m.text)
	}
	if len(alts) == 0 {
		c.oblige("variant", fmt.Sprintf("loop%d", li.ordinal), reach, "false", pos, "no termination measure found (write: loop N decreases ...)")
		return
	}
	// each single candidate must work on ALL back edges: emit one obligation per candidate, grouped
	for i := range alts {
		c.obls = append(c.obls, Obl{Name: fmt.Sprintf("%s#variant-auto:loop%d/%s", fnName(c.root), li.ordinal, texts[i]), Kind: "variant-auto", HId: fmt.Sprintf("loop%d|%s", li.ordinal, texts[i]), Reach: reach, Cond: alts[i], NDecl: len(c.decls), NAsm: len(c.asms), Fn: fnName(c.root), Expr: "auto decreases " + texts[i], Pos: c.fset.Position(pos)})
	}
}

type autoMeasure struct {
	text  string
	entry string
	eval  func(st *State) string
}

func strJoin(xs []string) string { return strings.Join(xs, " ") }
