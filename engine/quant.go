// quant.go - quantifier-free fast path for obligations that involve universally quantified contracts.
//
// Every `forall` produced by the contract evaluator (and by the copy builtin) is registered with its binders and body.
// For an obligation, a second, quantifier-free query is built:
//   * a registered forall that occurs POSITIVELY in the goal is replaced by its body at fresh skolem constants
//     (proving the body for arbitrary constants proves the forall);
//   * in every hypothesis, a registered forall that occurs only positively is replaced by the conjunction of its
//     instances at those skolem constants and at the ground index terms handed in by the caller (each instance is
//     implied by the forall, so the hypothesis only gets weaker); hypotheses with any other quantifier are dropped.
// Both steps weaken the hypotheses or strengthen the goal, so `unsat` of the fast query implies `unsat` of the real
// query. Anything else (sat/unknown) is ignored and the full query with quantifiers is tried as before.
package main

import (
	"sync/atomic"
	"fmt"
	"regexp"
	"strings"
)

var frameSkRe = regexp.MustCompile(`\bf[rm]k_\d+\b`)

type forallRec struct {
	full  string
	syms  []string
	sorts []string
	body  string
}

func (c *Ctx) registerForall(full string, syms, sorts []string, body string) {
	c.foralls = append(c.foralls, forallRec{full, syms, sorts, body})
}

// sexprSpan: children spans of the list starting at s[i]=='('; returns child [start,end) pairs and the end index.
func sexprChildren(s string, i int) (kids [][2]int, end int) {
	j := i + 1
	for j < len(s) {
		switch s[j] {
		case ' ', '\n', '\t':
			j++
		case ')':
			return kids, j + 1
		case '(':
			d := 0
			k := j
			for k < len(s) {
				if s[k] == '(' {
					d++
				} else if s[k] == ')' {
					d--
					if d == 0 {
						break
					}
				}
				k++
			}
			kids = append(kids, [2]int{j, k + 1})
			j = k + 1
		default:
			k := j
			for k < len(s) && s[k] != ' ' && s[k] != ')' && s[k] != '(' && s[k] != '\n' {
				k++
			}
			kids = append(kids, [2]int{j, k})
			j = k
		}
	}
	return kids, len(s)
}

// polarities walks formula s (span [lo,hi)) and reports, for every occurrence of a target string as a complete
// sub-expression, the polarity under which it occurs: +1, -1 or 0 (both/unknown).
func polarities(s string, lo, hi int, pol int, targets map[string]bool, out map[string][]int) {
	sub := s[lo:hi]
	if targets[sub] {
		out[sub] = append(out[sub], pol)
		return
	}
	if lo >= hi || s[lo] != '(' {
		return
	}
	kids, _ := sexprChildren(s, lo)
	if len(kids) == 0 {
		return
	}
	head := s[kids[0][0]:kids[0][1]]
	args := kids[1:]
	switch head {
	case "and", "or":
		for _, a := range args {
			polarities(s, a[0], a[1], pol, targets, out)
		}
	case "not":
		for _, a := range args {
			polarities(s, a[0], a[1], -pol, targets, out)
		}
	case "=>":
		for i, a := range args {
			if i == len(args)-1 {
				polarities(s, a[0], a[1], pol, targets, out)
			} else {
				polarities(s, a[0], a[1], -pol, targets, out)
			}
		}
	case "ite":
		if len(args) == 3 {
			polarities(s, args[0][0], args[0][1], 0, targets, out)
			polarities(s, args[1][0], args[1][1], pol, targets, out)
			polarities(s, args[2][0], args[2][1], pol, targets, out)
		}
	case "!":
		if len(args) > 0 {
			polarities(s, args[0][0], args[0][1], pol, targets, out)
		}
	default:
		for _, a := range args {
			polarities(s, a[0], a[1], 0, targets, out)
		}
	}
}

// substSyms replaces whole-symbol occurrences.
func substSyms(body string, from, to []string) string {
	for i := range from {
		var sb strings.Builder
		f := from[i]
		j := 0
		for j < len(body) {
			k := strings.Index(body[j:], f)
			if k < 0 {
				sb.WriteString(body[j:])
				break
			}
			k += j
			e := k + len(f)
			okL := k == 0 || body[k-1] == ' ' || body[k-1] == '('
			okR := e == len(body) || body[e] == ' ' || body[e] == ')'
			sb.WriteString(body[j:k])
			if okL && okR {
				sb.WriteString(to[i])
			} else {
				sb.WriteString(f)
			}
			j = e
		}
		body = sb.String()
	}
	return body
}

func hasQuant(s string) bool { return strings.Contains(s, "(forall ") || strings.Contains(s, "(exists ") }

// qfQuery builds the quantifier-free strengthening of obligation o, or "" if it does not apply.
var sknCounter int64

func (c *Ctx) qfQuery(o Obl) string { return c.qfQueryK(o, 0) }

// qfQueryK: as qfQuery; with consts > 0 every hypothesis forall over one 64-bit index is additionally instantiated at
// the constants 0..consts-1 (byte-level facts about a buffer `forall k :: buf[k] == ...` used at fixed offsets).
func (c *Ctx) qfQueryK(o Obl, consts int) string {
	if len(c.foralls) == 0 {
		return ""
	}
	anyQ := hasQuant(o.Cond) || hasQuant(o.Reach)
	for _, a := range c.asms[:o.NAsm] {
		if anyQ {
			break
		}
		anyQ = hasQuant(a)
	}
	if !anyQ {
		return ""
	}
	targets := map[string]bool{}
	byFull := map[string]forallRec{}
	for _, f := range c.foralls {
		targets[f.full] = true
		byFull[f.full] = f
	}
	// --- goal ---
	cond := o.Cond
	var skDecls []string
	type tuple struct {
		vals  []string
		sorts []string
	}
	var tuples []tuple
	if hasQuant(cond) {
		occ := map[string][]int{}
		polarities(cond, 0, len(cond), 1, targets, occ)
		for full, ps := range occ {
			allPos := true
			for _, p := range ps {
				if p != 1 {
					allPos = false
				}
			}
			if !allPos {
				continue
			}
			f := byFull[full]
			var sks []string
			for i := range f.syms {
				skn := atomic.AddInt64(&sknCounter, 1)
				sk := fmt.Sprintf("sk_%d_%d", len(c.decls), skn)
				skDecls = append(skDecls, fmt.Sprintf("(declare-const %s %s)", sk, f.sorts[i]))
				sks = append(sks, sk)
			}
			tuples = append(tuples, tuple{sks, f.sorts})
			cond = strings.ReplaceAll(cond, full, substSyms(f.body, f.syms, sks))
		}
		if hasQuant(cond) {
			return ""
		}
	}
	if hasQuant(o.Reach) {
		return ""
	}
	// frame skolems (free Int constants frk_N / fmk_N introduced by frame obligations) are instantiation terms too
	for _, m := range frameSkRe.FindAllString(cond, -1) {
		dup := false
		for _, t := range tuples {
			if len(t.vals) == 1 && t.vals[0] == m {
				dup = true
			}
		}
		if !dup {
			tuples = append(tuples, tuple{[]string{m}, []string{"Int"}})
		}
	}
	for k := 0; k < consts; k++ {
		tuples = append(tuples, tuple{[]string{i64(int64(k))}, []string{BV64}})
	}
	// ground array indices of the (skolemised) goal that mention a goal skolem
	var goalIdx []string
	if len(skDecls) > 0 {
		goalIdx = selectIndices(cond, "sk_")
	}
	// --- hypotheses ---
	var sb strings.Builder
	sb.WriteString(prelude)
	for _, d := range c.decls[:o.NDecl] {
		sb.WriteString(d)
		sb.WriteByte('\n')
	}
	for _, d := range skDecls {
		sb.WriteString(d + "\n")
	}
	for _, a := range c.asms[:o.NAsm] {
		if !hasQuant(a) {
			sb.WriteString("(assert " + a + ")\n")
			continue
		}
		occ := map[string][]int{}
		polarities(a, 0, len(a), 1, targets, occ)
		na := a
		for full, ps := range occ {
			allPos := true
			for _, p := range ps {
				if p != 1 {
					allPos = false
				}
			}
			if !allPos {
				continue
			}
			f := byFull[full]
			var insts []string
			// E-matching on array indices: the body mentions (select A (bvadd X k)) for its bound index k, the goal
			// mentions (select A' G) with a goal skolem inside G: instantiate k := G - X (shifted views of one array)
			if len(f.syms) == 1 && f.sorts[0] == BV64 && len(goalIdx) > 0 {
				seen := map[string]bool{}
				for _, x := range indexOffsets(f.body, f.syms[0]) {
					for _, g := range goalIdx {
						inst := g
						if x != "" {
							inst = "(bvsub " + g + " " + x + ")"
						}
						if !seen[inst] && len(seen) < 24 {
							seen[inst] = true
							insts = append(insts, substSyms(f.body, f.syms, []string{inst}))
						}
					}
				}
			}
			for _, t := range tuples {
				if len(t.vals) != len(f.syms) {
					continue
				}
				ok := true
				for i := range t.sorts {
					if t.sorts[i] != f.sorts[i] {
						ok = false
					}
				}
				if ok {
					insts = append(insts, substSyms(f.body, f.syms, t.vals))
				}
			}
			na = strings.ReplaceAll(na, full, and(insts...))
		}
		if hasQuant(na) {
			continue // weaker: drop the hypothesis
		}
		sb.WriteString("(assert " + na + ")\n")
	}
	sb.WriteString("(assert " + o.Reach + ")\n(assert (not " + cond + "))\n(check-sat)\n")
	return sb.String()
}

// registerForallFrame registers a frame equation `(forall ((q T)) (! body :pattern ...))` for instantiation.
func (c *Ctx) registerForallFrame(full string) {
	// full = (forall ((q_x Int)) (! BODY :pattern (...)))
	const pfx = "(forall (("
	if !strings.HasPrefix(full, pfx) {
		return
	}
	rest := full[len(pfx):]
	sp := strings.Index(rest, " ")
	sym := rest[:sp]
	bi := strings.Index(full, "(! ")
	pi := strings.LastIndex(full, " :pattern ")
	if bi < 0 || pi < 0 {
		return
	}
	c.quantified = true
	c.registerForall(full, []string{sym}, []string{"Int"}, full[bi+3:pi])
}

// ---------- hypothesis slicing (relevance filter) ----------
// Dropping hypotheses only weakens them, so `unsat` of a sliced query implies `unsat` of the real one. For large
// functions the sliced query (assumptions connected to the goal through non-hub symbols within two steps, after
// expanding named definitions) is tried first with a short limit.

var symRe = regexp.MustCompile(`[A-Za-z_][A-Za-z0-9_!]*`)

type sliceIndex struct {
	defBody map[string]string // define-fun name -> body text
	declared map[string]bool
}

func (c *Ctx) buildSliceIndex(ndecl int) *sliceIndex {
	ix := &sliceIndex{defBody: map[string]string{}, declared: map[string]bool{}}
	for _, d := range c.decls[:ndecl] {
		if strings.HasPrefix(d, "(define-fun ") {
			rest := d[len("(define-fun "):]
			sp := strings.IndexByte(rest, ' ')
			if sp > 0 {
				ix.defBody[rest[:sp]] = rest[sp:]
				ix.declared[rest[:sp]] = true
			}
		} else if strings.HasPrefix(d, "(declare-const ") {
			rest := d[len("(declare-const "):]
			sp := strings.IndexByte(rest, ' ')
			if sp > 0 {
				ix.declared[rest[:sp]] = true
			}
		}
	}
	return ix
}

func (ix *sliceIndex) symsOf(text string, into map[string]bool) {
	var stack []string
	for _, t := range symRe.FindAllString(text, -1) {
		if ix.declared[t] && !into[t] {
			into[t] = true
			stack = append(stack, t)
		}
	}
	for len(stack) > 0 {
		t := stack[len(stack)-1]
		stack = stack[:len(stack)-1]
		if b, ok := ix.defBody[t]; ok {
			for _, u := range symRe.FindAllString(b, -1) {
				if ix.declared[u] && !into[u] {
					into[u] = true
					stack = append(stack, u)
				}
			}
		}
	}
}

// slicedQuery returns a query with a subset of the assumptions, or "" when slicing would not remove much.
func (c *Ctx) slicedQuery(o Obl, base string) string {
	if o.NAsm < 60 {
		return ""
	}
	ix := c.buildSliceIndex(o.NDecl)
	asms := c.asms[:o.NAsm]
	per := make([]map[string]bool, len(asms))
	freq := map[string]int{}
	for i, a := range asms {
		m := map[string]bool{}
		for _, t := range symRe.FindAllString(a, -1) {
			if ix.declared[t] {
				m[t] = true
			}
		}
		per[i] = m
		for t := range m {
			freq[t]++
		}
	}
	hubLimit := len(asms) / 8
	if hubLimit < 8 {
		hubLimit = 8
	}
	need := map[string]bool{}
	ix.symsOf(o.Cond, need)
	ix.symsOf(o.Reach, need)
	take := make([]bool, len(asms))
	for round := 0; round < 3; round++ {
		added := false
		for i := range asms {
			if take[i] {
				continue
			}
			hit := false
			for t := range per[i] {
				if need[t] && freq[t] <= hubLimit {
					hit = true
					break
				}
			}
			if hit {
				take[i] = true
				added = true
			}
		}
		if !added {
			break
		}
		for i := range asms {
			if take[i] {
				ix.symsOf(asms[i], need)
			}
		}
	}
	n := 0
	for _, t := range take {
		if t {
			n++
		}
	}
	if n*10 > len(asms)*8 {
		return "" // would keep more than 80 %: not worth a separate attempt
	}
	var sb strings.Builder
	sb.WriteString(prelude)
	for _, d := range c.decls[:o.NDecl] {
		sb.WriteString(d)
		sb.WriteByte('\n')
	}
	for i, a := range asms {
		if take[i] && !hasQuant(a) {
			sb.WriteString("(assert " + a + ")\n")
		}
	}
	if hasQuant(o.Cond) || hasQuant(o.Reach) {
		return ""
	}
	sb.WriteString("(assert " + o.Reach + ")\n(assert (not " + o.Cond + "))\n(check-sat)\n")
	return sb.String()
}

// selectIndices lists the index terms of (select A I) subterms of f whose I mentions a symbol with the given prefix.
func selectIndices(f, pfx string) []string {
	var out []string
	seen := map[string]bool{}
	for i := 0; i+8 < len(f); i++ {
		if !strings.HasPrefix(f[i:], "(select ") {
			continue
		}
		kids, _ := sexprChildren(f, i)
		if len(kids) != 3 {
			continue
		}
		idx := f[kids[2][0]:kids[2][1]]
		if strings.Contains(idx, pfx) && !seen[idx] && len(idx) < 400 {
			seen[idx] = true
			out = append(out, idx)
		}
	}
	return out
}

// indexOffsets: for each (select A I) in body where I is the bound symbol k itself or (bvadd X k) / (bvadd k X) with X free of
// k, the offset X ("" for a bare k).
func indexOffsets(body, k string) []string {
	var out []string
	seen := map[string]bool{}
	hasK := func(t string) bool { return substSyms(t, []string{k}, []string{"\x00"}) != t }
	for i := 0; i+8 < len(body); i++ {
		if !strings.HasPrefix(body[i:], "(select ") {
			continue
		}
		kids, _ := sexprChildren(body, i)
		if len(kids) != 3 {
			continue
		}
		idx := body[kids[2][0]:kids[2][1]]
		x, ok := "", false
		if idx == k {
			ok = true
		} else if strings.HasPrefix(idx, "(bvadd ") {
			ks, _ := sexprChildren(idx, 0)
			if len(ks) == 3 {
				a, b := idx[ks[1][0]:ks[1][1]], idx[ks[2][0]:ks[2][1]]
				if b == k && !hasK(a) {
					x, ok = a, true
				} else if a == k && !hasK(b) {
					x, ok = b, true
				}
			}
		}
		if ok && !seen[x] {
			seen[x] = true
			out = append(out, x)
		}
	}
	return out
}
