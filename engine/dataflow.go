// dataflow.go - obligations that are not first-order facts about one function (reported with back end "dataflow").
package main

type DFResult struct {
	Name   string
	OK     bool
	Detail string
	At     string
}

func (w *World) runPass(pass string, cfg *PropCfg, inSet interface{}) []DFResult {
	return nil
}
