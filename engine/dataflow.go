// dataflow.go - obligations that are not first-order facts about one function: they are decided by small passes over
// the same go/ssa program and call graph (silence, log-only regions, stray reads, global-state inventory, allocation
// inventory). They are named like every other obligation and reported with back end "dataflow" - never as SMT proofs.
package main

import (
	"fmt"
	"go/ast"
	"os"
	"go/token"
	"go/types"
	"sort"
	"strings"

	"golang.org/x/tools/go/ssa"
)

type DFResult struct {
	Name   string
	OK     bool
	Detail string
	At     string
}

func (w *World) posOf(p token.Pos) string {
	if !p.IsValid() {
		return ""
	}
	ps := w.fset.Position(p)
	return fmt.Sprintf("%s:%d", shortFile(ps.Filename), ps.Line)
}

// dfSet: the module functions reachable from the property's roots (whole call graph, not restricted by Scope).
func (w *World) dfSet(cfg *PropCfg) []*ssa.Function {
	roots := cfg.DFRoots
	if len(roots) == 0 {
		roots = decodeRoots
	}
	var out []*ssa.Function
	for _, fn := range w.reachable(roots) {
		if hasGenFile(w, fn) {
			continue
		}
		out = append(out, fn)
	}
	return out
}

func (w *World) runPass(pass string, cfg *PropCfg, inSet interface{}) []DFResult {
	fns := w.dfSet(cfg)
	switch pass {
	case "silence":
		return w.passSilence(fns)
	case "log-regions":
		return w.passLogRegions(fns)
	case "stray-read":
		return w.passStrayRead(fns)
	case "globals":
		return w.passGlobals(fns)
	case "alloc":
		return w.passAlloc(fns)
	case "pool-discipline":
		return w.passPools(fns)
	case "pool-escape":
		roots := cfg.DFRoots
		if len(roots) == 0 {
			roots = decodeRoots
		}
		return w.passPoolEscape(fns, roots)
	case "pool-fill":
		return w.passPoolFill(fns)
	case "reads-frame":
		return w.passReadsFrame(cfg)
	}
	return []DFResult{{Name: "dataflow#unknown-pass:" + pass, OK: false, Detail: "pass not implemented"}}
}

func calleeOf(com *ssa.CallCommon) (pkg, name string) {
	if b, ok := com.Value.(*ssa.Builtin); ok {
		return "builtin", b.Name()
	}
	if com.IsInvoke() {
		t := com.Value.Type()
		if n, ok := t.(*types.Named); ok && n.Obj().Pkg() != nil {
			return n.Obj().Pkg().Path(), n.Obj().Name() + "." + com.Method.Name()
		}
		return "", com.Method.Name()
	}
	if f := com.StaticCallee(); f != nil {
		p := pkgPathOf(f)
		if f.Signature.Recv() != nil {
			rt := f.Signature.Recv().Type()
			if pt, ok := rt.(*types.Pointer); ok {
				rt = pt.Elem()
			}
			if n, ok := rt.(*types.Named); ok {
				return p, n.Obj().Name() + "." + f.Name()
			}
		}
		return p, f.Name()
	}
	return "", ""
}

func eachCall(fn *ssa.Function, f func(ins ssa.Instruction, com *ssa.CallCommon)) {
	for _, b := range fn.Blocks {
		for _, ins := range b.Instrs {
			switch x := ins.(type) {
			case *ssa.Call:
				f(ins, &x.Call)
			case *ssa.Defer:
				f(ins, &x.Call)
			case *ssa.Go:
				f(ins, &x.Call)
			}
		}
	}
}

// ---------- C15 (3): silence ----------
// With the default configuration (every package Logger is built with .Level(zerolog.PanicLevel)) zerolog drops every
// event below Panic (assumed dependency contract). The pass therefore requires, per reachable function: no print-family
// call, no use of os.Stdout/os.Stderr, no logger event that bypasses or reaches the default level (Panic, Fatal, Log,
// NoLevel, Print*, Write), and no zerolog.Logger handed out as an io.Writer; plus one obligation per package Logger
// that its initialiser pins the level to PanicLevel.
func (w *World) passSilence(fns []*ssa.Function) []DFResult {
	var out []DFResult
	forbiddenLogger := map[string]bool{"Logger.Panic": true, "Logger.Fatal": true, "Logger.Log": true, "Logger.Print": true, "Logger.Printf": true, "Logger.Println": true, "Logger.Write": true}
	for _, fn := range fns {
		var bad, notes []string
		eachCall(fn, func(ins ssa.Instruction, com *ssa.CallCommon) {
			pkg, name := calleeOf(com)
			switch {
			case pkg == "builtin" && (name == "print" || name == "println"):
				bad = append(bad, name+" builtin at "+w.posOf(ins.Pos()))
			case pkg == "fmt" && (strings.HasPrefix(name, "Print") || strings.HasPrefix(name, "Fprint")):
				if g := w.debugSwitchGuard(ins); g != "" {
					notes = append(notes, "fmt."+name+" at "+w.posOf(ins.Pos())+" is guarded by the package switch "+g+" (false by default, never assigned inside the library)")
				} else {
					bad = append(bad, "fmt."+name+" at "+w.posOf(ins.Pos()))
				}
			case pkg == "log" && !strings.HasPrefix(name, "New"):
				bad = append(bad, "log."+name+" at "+w.posOf(ins.Pos()))
			case pkg == "github.com/rs/zerolog" && forbiddenLogger[name]:
				bad = append(bad, "zerolog "+name+" (not filtered by the default level) at "+w.posOf(ins.Pos()))
			case pkg == "github.com/rs/zerolog" && name == "Logger.WithLevel":
				if len(com.Args) > 1 {
					if k, ok := com.Args[1].(*ssa.Const); !ok || k.Int64() > 4 || k.Int64() < -1 {
						bad = append(bad, "zerolog WithLevel with a level that is not one of trace..error at "+w.posOf(ins.Pos()))
					}
				}
			}
		})
		for _, b := range fn.Blocks {
			for _, ins := range b.Instrs {
				for _, op := range ins.Operands(nil) {
					if g, ok := (*op).(*ssa.Global); ok && g.Pkg != nil && g.Pkg.Pkg.Path() == "os" && (g.Name() == "Stdout" || g.Name() == "Stderr") {
						if fn.Synthetic == "" {
							bad = append(bad, "os."+g.Name()+" used at "+w.posOf(ins.Pos()))
						}
					}
				}
				if mi, ok := ins.(*ssa.MakeInterface); ok {
					if n, ok := mi.X.Type().(*types.Named); ok && n.Obj().Pkg() != nil && n.Obj().Pkg().Path() == "github.com/rs/zerolog" && n.Obj().Name() == "Logger" {
						bad = append(bad, "zerolog.Logger converted to an interface (io.Writer use bypasses the level filter) at "+w.posOf(ins.Pos()))
					}
				}
			}
		}
		out = append(out, DFResult{Name: fnName(fn) + "#silent", OK: len(bad) == 0, Detail: strings.Join(append(bad, notes...), "; "), At: w.posOf(fn.Pos())})
	}
	// package loggers: initialiser must end in .Level(zerolog.PanicLevel) (possibly followed by With()...Logger())
	for _, p := range w.pkgs {
		sp := w.prog.Package(p.Types)
		if sp == nil {
			continue
		}
		for nm, m := range sp.Members {
			g, ok := m.(*ssa.Global)
			if !ok {
				continue
			}
			n, ok := g.Type().(*types.Pointer).Elem().(*types.Named)
			if !ok || n.Obj().Pkg() == nil || n.Obj().Pkg().Path() != "github.com/rs/zerolog" || n.Obj().Name() != "Logger" {
				continue
			}
			okLevel := false
			if init := sp.Func("init"); init != nil {
				eachCall(init, func(ins ssa.Instruction, com *ssa.CallCommon) {
					pkg, name := calleeOf(com)
					if pkg == "github.com/rs/zerolog" && name == "Logger.Level" && len(com.Args) > 1 {
						if k, ok := com.Args[1].(*ssa.Const); ok && k.Int64() == 5 { // zerolog.PanicLevel
							okLevel = true
						}
					}
				})
			}
			out = append(out, DFResult{Name: relPkg(p.PkgPath) + "." + nm + "#default-level-panic", OK: okLevel, Detail: "package logger must be initialised with .Level(zerolog.PanicLevel)", At: w.posOf(g.Pos())})
		}
	}
	sort.Slice(out, func(i, j int) bool { return out[i].Name < out[j].Name })
	return out
}

// ---------- C15 (1): log-only regions ----------

// isLogLevelFn: a module function `logLevel*` (free function or method) returning bool.
func isLogLevelFn(f *ssa.Function) bool {
	if f == nil || !inModule(f) {
		return false
	}
	r := f.Signature.Results()
	if r.Len() != 1 {
		return false
	}
	b, ok := r.At(0).Type().Underlying().(*types.Basic)
	if !ok || b.Kind() != types.Bool {
		return false
	}
	if strings.HasPrefix(f.Name(), "logLevel") {
		return true
	}
	// any predicate whose only call is zerolog's Logger.GetLevel (e.g. jpeg.logInfo)
	if !strings.HasPrefix(f.Name(), "log") || len(f.Blocks) > 3 {
		return false
	}
	n := 0
	other := false
	eachCall(f, func(ins ssa.Instruction, com *ssa.CallCommon) {
		pkg, name := calleeOf(com)
		if pkg == "github.com/rs/zerolog" && name == "Logger.GetLevel" {
			n++
		} else if !(pkg == "builtin" && strings.HasPrefix(name, "ssa:")) {
			other = true
		}
	})
	return n > 0 && !other
}

// logLevelValue: v is (derived from) a log-level predicate: a call of logLevel*, a GetLevel() comparison, or a load of
// a local that is only ever assigned such values.
func logLevelValue(v ssa.Value, depth int) bool {
	if depth > 4 {
		return false
	}
	switch x := v.(type) {
	case *ssa.Call:
		if isLogLevelFn(x.Call.StaticCallee()) {
			return true
		}
		_, name := calleeOf(&x.Call)
		return name == "Logger.GetLevel"
	case *ssa.BinOp:
		return logLevelValue(x.X, depth+1) || logLevelValue(x.Y, depth+1)
	case *ssa.UnOp:
		if x.Op == token.NOT {
			return logLevelValue(x.X, depth+1)
		}
		if x.Op == token.MUL {
			if a, ok := x.X.(*ssa.Alloc); ok && !a.Heap {
				n := 0
				for _, r := range *a.Referrers() {
					if st, ok := r.(*ssa.Store); ok && st.Addr == a {
						n++
						if !logLevelValue(st.Val, depth+1) {
							return false
						}
					}
				}
				return n > 0
			}
		}
	}
	return false
}

// logPureCall: a call that only produces log output (zerolog/fmt/errors formatting, module log helpers and marshalers).
func (w *World) logPureCall(com *ssa.CallCommon, depth int) bool {
	pkg, name := calleeOf(com)
	switch {
	case pkg == "builtin" && (name == "copy" || name == "append"):
		return localMemory(com.Args[0], 0)
	case pkg == "builtin":
		return name == "len" || name == "cap" || name == "ssa:wrapnilchk" || name == "ssa:deferstack" || name == "min" || name == "max"
	case pkg == "github.com/rs/zerolog" || pkg == "github.com/rs/zerolog/log" || pkg == "fmt" && strings.HasPrefix(name, "Sprint") || pkg == "errors" || pkg == "github.com/pkg/errors" || pkg == "runtime" || pkg == "strconv" || pkg == "strings" || pkg == "unicode/utf8" || pkg == "math":
		return true
	case pkg == "encoding/binary" && (strings.Contains(name, ".Uint") || strings.Contains(name, ".String")):
		return true
	case pkg == "encoding/hex" && (name == "Encode" || name == "EncodeToString" || name == "EncodedLen"):
		return name != "Encode" || localMemory(com.Args[0], 0)
	}
	if b, ok := com.Value.(*ssa.Builtin); ok && (b.Name() == "copy" || b.Name() == "append") {
		return localMemory(com.Args[0], 0)
	}
	if com.IsInvoke() {
		// error.Error(), fmt.Stringer.String(), zerolog marshaler interfaces
		m := com.Method.Name()
		return m == "Error" || m == "String" || m == "MarshalZerologObject" || m == "MarshalZerologArray"
	}
	f := com.StaticCallee()
	if f == nil || !inModule(f) || depth > 12 {
		return false
	}
	return w.logPureFn(f, depth+1)
}

var logPureCache = map[*ssa.Function]int{}

// logPureFn: the function writes nothing but its own locals and only makes log-pure calls (String/Marshal/log helpers).
func (w *World) logPureFn(f *ssa.Function, depth int) bool {
	if v, ok := logPureCache[f]; ok {
		return v == 1
	}
	logPureCache[f] = 1 // optimistic for recursion
	ok := true
	for _, b := range f.Blocks {
		for _, ins := range b.Instrs {
			switch x := ins.(type) {
			case *ssa.Store:
				if rootAlloc(x.Addr) == nil {
					if a, isA := x.Addr.(*ssa.Alloc); !(isA && a.Heap) && !isVarargsStore(x) {
						ok = false
					}
				}
			case *ssa.MapUpdate, *ssa.Go, *ssa.Send, *ssa.Panic:
				ok = false
			case *ssa.Call:
				if !w.logPureCall(&x.Call, depth) {
					ok = false
				}
			case *ssa.Defer:
				ok = false
			}
		}
	}
	if !ok {
		logPureCache[f] = 0
		if os.Getenv("VCGO_DEBUG") != "" {
			for _, b := range f.Blocks {
				for _, ins := range b.Instrs {
					switch x := ins.(type) {
					case *ssa.Store:
						if rootAlloc(x.Addr) == nil && !isVarargsStore(x) {
							fmt.Fprintf(os.Stderr, "DEBUG not log-pure %s: store %s at %s\n", fnName(f), x, w.posOf(x.Pos()))
						}
					case *ssa.Call:
						if !w.logPureCall(&x.Call, depth) {
							fmt.Fprintf(os.Stderr, "DEBUG not log-pure %s: call %s at %s\n", fnName(f), x, w.posOf(x.Pos()))
						}
					case *ssa.MapUpdate, *ssa.Go, *ssa.Send, *ssa.Panic, *ssa.Defer:
						fmt.Fprintf(os.Stderr, "DEBUG not log-pure %s: %s\n", fnName(f), ins)
					}
				}
			}
		}
	}
	return ok
}

// localMemory: the address points into memory allocated by this very function (make, new, address-taken local).
func localMemory(v ssa.Value, depth int) bool {
	if depth > 8 {
		return false
	}
	switch x := v.(type) {
	case *ssa.Alloc:
		return true
	case *ssa.MakeSlice:
		return true
	case *ssa.IndexAddr:
		return localMemory(x.X, depth+1)
	case *ssa.FieldAddr:
		return localMemory(x.X, depth+1)
	case *ssa.Slice:
		return localMemory(x.X, depth+1)
	case *ssa.UnOp:
		if x.Op == token.MUL {
			// a local variable holding a slice/pointer: every value stored into it must be local memory
			if a, ok := x.X.(*ssa.Alloc); ok && !a.Heap {
				n := 0
				for _, r := range *a.Referrers() {
					if st, ok := r.(*ssa.Store); ok && st.Addr == a {
						n++
						if !localMemory(st.Val, depth+1) {
							return false
						}
					}
				}
				return n > 0
			}
		}
	case *ssa.Call:
		// append/hex-append style helpers returning a grown copy of local memory
		if b, ok := x.Call.Value.(*ssa.Builtin); ok && b.Name() == "append" {
			return localMemory(x.Call.Args[0], depth+1)
		}
		pkg, _ := calleeOf(&x.Call)
		if pkg == "strconv" {
			return len(x.Call.Args) > 0 && localMemory(x.Call.Args[0], depth+1)
		}
	case *ssa.Const:
		return x.IsNil()
	}
	return false
}

func isVarargsStore(st *ssa.Store) bool {
	if localMemory(st.Addr, 0) {
		return true
	}
	if ia, ok := st.Addr.(*ssa.IndexAddr); ok {
		if a, ok := ia.X.(*ssa.Alloc); ok && a.Comment == "varargs" {
			return true
		}
	}
	return false
}

func (w *World) passLogRegions(fns []*ssa.Function) []DFResult {
	var out []DFResult
	for _, fn := range fns {
		if isLogLevelFn(fn) {
			continue // the predicates themselves
		}
		n := 0
		for _, b := range fn.Blocks {
			if len(b.Instrs) == 0 {
				continue
			}
			iff, ok := b.Instrs[len(b.Instrs)-1].(*ssa.If)
			if !ok || !logLevelValue(iff.Cond, 0) {
				continue
			}
			name := fmt.Sprintf("%s#log-only-region@%d", fnName(fn), n)
			n++
			// one successor starts the log region, the other one is where it must rejoin
			var problems []string
			okAny := false
			for k := 0; k < 2; k++ {
				start, join := b.Succs[k], b.Succs[1-k]
				probs := w.logRegion(fn, start, join)
				if len(probs) == 0 {
					okAny = true
					break
				}
				if k == 0 {
					problems = probs
				}
			}
			out = append(out, DFResult{Name: name, OK: okAny, Detail: strings.Join(problems, "; "), At: w.posOf(iff.Cond.Pos())})
		}
	}
	sort.Slice(out, func(i, j int) bool { return out[i].Name < out[j].Name })
	return out
}

// logRegion checks that everything reachable from start before reaching join only logs, and that the region has no
// other exit (return, break/continue/goto to another block).
func (w *World) logRegion(fn *ssa.Function, start, join *ssa.BasicBlock) []string {
	var probs []string
	if start == join {
		return nil
	}
	// phase 1: the region = blocks reachable from start without passing through join
	seen := map[*ssa.BasicBlock]bool{join: true}
	work := []*ssa.BasicBlock{start}
	region := map[*ssa.BasicBlock]bool{}
	var order []*ssa.BasicBlock
	for len(work) > 0 {
		b := work[len(work)-1]
		work = work[:len(work)-1]
		if seen[b] {
			continue
		}
		seen[b] = true
		region[b] = true
		order = append(order, b)
		if len(region) > 16 {
			return []string{"region too large to be a log statement"}
		}
		for _, s := range b.Succs {
			if s == join {
				continue
			}
			if !start.Dominates(s) {
				last := b.Instrs[len(b.Instrs)-1]
				probs = append(probs, "control leaves the log-level branch without rejoining (break/continue/goto) at "+w.posOf(last.Pos())+" in "+w.posOf(start.Instrs[0].Pos()))
				continue
			}
			work = append(work, s)
		}
	}
	// phase 2: the instructions of the region only log
	for _, b := range order {
		for _, ins := range b.Instrs {
			switch x := ins.(type) {
			case *ssa.Return:
				probs = append(probs, "return inside a block guarded by a log-level test at "+w.posOf(x.Pos()))
			case *ssa.Panic:
				probs = append(probs, "panic inside a log-level branch at "+w.posOf(x.Pos()))
			case *ssa.Store:
				if a := rootAlloc(x.Addr); a != nil {
					// a local written in the region must not be read outside it
					for _, r := range *a.Referrers() {
						ri, ok := r.(ssa.Instruction)
						if !ok || ri.Block() == nil || region[ri.Block()] {
							continue
						}
						switch r.(type) {
						case *ssa.Store, *ssa.DebugRef:
						default:
							probs = append(probs, "local "+a.Comment+" assigned under a log-level test and used outside at "+w.posOf(x.Pos()))
						}
					}
				} else if !isVarargsStore(x) {
					probs = append(probs, "store to non-local state under a log-level test at "+w.posOf(x.Pos()))
				}
			case *ssa.MapUpdate, *ssa.Go, *ssa.Send, *ssa.Defer:
				probs = append(probs, "side effect under a log-level test at "+w.posOf(ins.Pos()))
			case *ssa.Call:
				if !w.logPureCall(&x.Call, 0) {
					_, nm := calleeOf(&x.Call)
					probs = append(probs, "call of "+nm+" (not a pure logging call) under a log-level test at "+w.posOf(x.Pos()))
				}
			}
		}
	}
	return probs
}

// ---------- C08 (3): stray reads ----------
// Every call of Read on a reader (io.Reader & co, bufio.Reader) in the function set is listed. Chunk-independence is
// argued through the read primitives only, so a Read call anywhere else is a violation.
var readPrimitives = map[string]string{
	"exif2.(*ifdReader).discard":             "skip loop over Read with a proved termination measure; counts what every Read returns (short-read safe)",
	"isobmff.(*box).Read":                    "length-limited pass-through handed to callbacks",
	"preview.(*previewReader).RenderPreview": "read loop that accumulates what every Read returns until the requested size",
}

func (w *World) passStrayRead(fns []*ssa.Function) []DFResult {
	var out []DFResult
	for _, fn := range fns {
		var sites []string
		eachCall(fn, func(ins ssa.Instruction, com *ssa.CallCommon) {
			pkg, name := calleeOf(com)
			isRead := false
			if com.IsInvoke() && com.Method.Name() == "Read" {
				isRead = true
			}
			if pkg == "bufio" && name == "Reader.Read" {
				isRead = true
			}
			if isRead {
				sites = append(sites, w.posOf(ins.Pos()))
			}
		})
		if len(sites) == 0 {
			continue
		}
		why, ok := readPrimitives[fnName(fn)]
		d := "direct Read call(s) at " + strings.Join(sites, ", ")
		if ok {
			d += " - listed read primitive: " + why
		} else {
			d += " - not a listed read primitive: results may depend on how the reader chunks the stream"
		}
		out = append(out, DFResult{Name: fnName(fn) + "#stray-read", OK: ok, Detail: d, At: w.posOf(fn.Pos())})
	}
	sort.Slice(out, func(i, j int) bool { return out[i].Name < out[j].Name })
	return out
}

// ---------- C04 / C05: package-level mutable state ----------
// Inventory of every module global that is written (or whose address escapes) outside package initialisation in the
// function set. Allowed: sync.Pool objects (exclusive ownership between Get and Put, assumed dependency contract) and
// state guarded by a package mutex (checked by the lock pass below). Anything else is cross-call state.
func (w *World) passGlobals(fns []*ssa.Function) []DFResult {
	var out []DFResult
	type use struct{ writes, reads []string }
	uses := map[*ssa.Global]*use{}
	for _, fn := range fns {
		for _, b := range fn.Blocks {
			for _, ins := range b.Instrs {
				for _, op := range ins.Operands(nil) {
					g, ok := (*op).(*ssa.Global)
					if !ok || g.Pkg == nil || !strings.HasPrefix(g.Pkg.Pkg.Path(), modulePath) {
						continue
					}
					u := uses[g]
					if u == nil {
						u = &use{}
						uses[g] = u
					}
					where := fnName(fn) + " " + w.posOf(ins.Pos())
					switch x := ins.(type) {
					case *ssa.Store:
						if x.Addr == g {
							u.writes = append(u.writes, where)
							continue
						}
					case *ssa.MapUpdate:
						u.writes = append(u.writes, where)
						continue
					}
					u.reads = append(u.reads, where)
				}
			}
		}
	}
	// map updates go through a loaded map value
	for _, fn := range fns {
		for _, b := range fn.Blocks {
			for _, ins := range b.Instrs {
				mu, ok := ins.(*ssa.MapUpdate)
				if !ok {
					continue
				}
				if ld, ok := mu.Map.(*ssa.UnOp); ok {
					if g, ok := ld.X.(*ssa.Global); ok {
						if u := uses[g]; u != nil {
							u.writes = append(u.writes, fnName(fn)+" "+w.posOf(ins.Pos()))
						}
					}
				}
			}
		}
	}
	var gs []*ssa.Global
	for g := range uses {
		gs = append(gs, g)
	}
	sort.Slice(gs, func(i, j int) bool { return gs[i].String() < gs[j].String() })
	for _, g := range gs {
		u := uses[g]
		gi := w.globals[g.String()]
		t := g.Type().(*types.Pointer).Elem()
		ts := types.TypeString(t, func(p *types.Package) string { return p.Name() })
		name := relPkg(g.Pkg.Pkg.Path()) + "." + g.Name() + "#global-state"
		switch {
		case ts == "sync.Pool":
			out = append(out, DFResult{Name: name, OK: true, Detail: "sync.Pool (objects exclusively owned between Get and Put; contents unconstrained at Get)"})
		case ts == "sync.RWMutex" || ts == "sync.Mutex":
			out = append(out, DFResult{Name: name, OK: true, Detail: "mutex"})
		case len(u.writes) == 0 && (gi == nil || !gi.stored):
			// read-only after initialisation
			out = append(out, DFResult{Name: name, OK: true, Detail: fmt.Sprintf("read-only after initialisation (%d read sites)", len(u.reads))})
		case len(u.writes) == 0:
			// assigned or address-taken somewhere in the module, but not on any path of this call graph
			ws := w.writersOf(g)
			out = append(out, DFResult{Name: name, OK: true, Detail: fmt.Sprintf("not written on any path from the entry points (%d read sites); assigned only by configuration code outside the call graph: %s", len(u.reads), strings.Join(ws, ", "))})
		default:
			ok, why := w.guardedByMutex(g, fns)
			d := fmt.Sprintf("written after initialisation at %s", strings.Join(u.writes, ", "))
			if ok {
				d += " - every access is between Lock/RLock and Unlock/RUnlock of " + why
			} else {
				d += " - " + why
			}
			out = append(out, DFResult{Name: name, OK: ok, Detail: d, At: w.posOf(g.Pos())})
		}
	}
	return out
}

// guardedByMutex: every access to global g in the function set happens, within its basic block sequence, after a
// Lock/RLock and before the matching Unlock/RUnlock of a package-level mutex; writes only under Lock.
func (w *World) guardedByMutex(g *ssa.Global, fns []*ssa.Function) (bool, string) {
	mutex := ""
	for _, fn := range fns {
		touches := false
		for _, b := range fn.Blocks {
			for _, ins := range b.Instrs {
				for _, op := range ins.Operands(nil) {
					if (*op) == ssa.Value(g) {
						touches = true
					}
				}
			}
		}
		if !touches {
			continue
		}
		// simple forward dataflow of the lock state over the CFG: 0 free, 1 read-locked, 2 write-locked, -1 conflict
		in := map[*ssa.BasicBlock]int{fn.Blocks[0]: 0}
		work := []*ssa.BasicBlock{fn.Blocks[0]}
		visited := map[*ssa.BasicBlock]bool{}
		for len(work) > 0 {
			b := work[0]
			work = work[1:]
			st := in[b]
			visited[b] = true
			for _, ins := range b.Instrs {
				if c, ok := ins.(*ssa.Call); ok {
					pkg, name := calleeOf(&c.Call)
					if pkg == "sync" && (strings.HasPrefix(name, "RWMutex.") || strings.HasPrefix(name, "Mutex.")) && len(c.Call.Args) > 0 {
						if mg, ok := c.Call.Args[0].(*ssa.Global); ok {
							mutex = mg.Name()
							switch strings.SplitN(name, ".", 2)[1] {
							case "Lock":
								if st != 0 {
									return false, "Lock while the mutex is already held in " + fnName(fn)
								}
								st = 2
							case "RLock":
								if st != 0 {
									return false, "RLock while the mutex is already held in " + fnName(fn)
								}
								st = 1
							case "Unlock":
								if st != 2 {
									return false, "Unlock without Lock in " + fnName(fn)
								}
								st = 0
							case "RUnlock":
								if st != 1 {
									return false, "RUnlock without RLock in " + fnName(fn)
								}
								st = 0
							}
							continue
						}
					}
				}
				// accesses: loads of the global (map value) count at the instruction that uses the loaded map
				acc, write := false, false
				switch x := ins.(type) {
				case *ssa.Lookup:
					if ld, ok := x.X.(*ssa.UnOp); ok && ld.X == ssa.Value(g) {
						acc = true
					}
				case *ssa.MapUpdate:
					if ld, ok := x.Map.(*ssa.UnOp); ok && ld.X == ssa.Value(g) {
						acc, write = true, true
					}
				case *ssa.Store:
					if x.Addr == ssa.Value(g) {
						acc, write = true, true
					}
				case *ssa.Range:
					if ld, ok := x.X.(*ssa.UnOp); ok && ld.X == ssa.Value(g) {
						acc = true
					}
				}
				if acc && st == 0 {
					return false, "access without the lock in " + fnName(fn) + " at " + w.posOf(ins.Pos())
				}
				if write && st != 2 {
					return false, "write under a read lock in " + fnName(fn) + " at " + w.posOf(ins.Pos())
				}
				if _, ok := ins.(*ssa.Return); ok && st != 0 {
					return false, "return while holding the lock in " + fnName(fn)
				}
			}
			for _, s := range b.Succs {
				if prev, ok := in[s]; ok {
					if prev != st {
						return false, "lock state differs between paths in " + fnName(fn)
					}
					continue
				}
				in[s] = st
				if !visited[s] {
					work = append(work, s)
				}
			}
		}
	}
	if mutex == "" {
		return false, "no package mutex guards it"
	}
	return true, mutex
}

// ---------- C14: allocation-site inventory ----------
// Every allocation whose size is not a compile-time constant is listed with a syntactic classification of its size:
// constant, length of an existing value (a copy of bytes already held), or a computed value (which needs a contract).
func (w *World) passAlloc(fns []*ssa.Function) []DFResult {
	var out []DFResult
	for _, fn := range fns {
		n := 0
		for _, b := range fn.Blocks {
			for _, ins := range b.Instrs {
				var what, class string
				ok := true
				switch x := ins.(type) {
				case *ssa.MakeSlice:
					what = "make(" + types.TypeString(x.Type(), func(p *types.Package) string { return p.Name() }) + ")"
					class, ok = sizeClass(x.Cap, 0)
				case *ssa.MakeMap:
					if x.Reserve == nil {
						continue
					}
					what = "make(map) with size hint"
					class, ok = sizeClass(x.Reserve, 0)
				case *ssa.Alloc:
					if !x.Heap || x.Comment == "varargs" {
						continue
					}
					what = "new(" + types.TypeString(x.Type().(*types.Pointer).Elem(), func(p *types.Package) string { return p.Name() }) + ")"
					class, ok = "constant", true
				case *ssa.Convert:
					// string <-> []byte conversions copy an existing value
					_, toStr := x.Type().Underlying().(*types.Basic)
					_, fromSl := x.X.Type().Underlying().(*types.Slice)
					_, toSl := x.Type().Underlying().(*types.Slice)
					if !(toStr && fromSl) && !toSl {
						continue
					}
					what = "conversion " + types.TypeString(x.X.Type(), nil) + " -> " + types.TypeString(x.Type(), nil)
					class, ok = "the length of a value already in memory (copy)", true
				case *ssa.Call:
					pkg, name := calleeOf(&x.Call)
					if pkg == "builtin" && name == "append" {
						what = "append"
						if len(x.Call.Args) > 1 {
							if sl, isSl := x.Call.Args[1].(*ssa.Slice); isSl {
								if al, isAl := sl.X.(*ssa.Alloc); isAl && al.Comment == "varargs" {
									class, ok = "constant", true // a fixed number of elements
									break
								}
							}
							class, ok = "the length of a value already in memory (appended slice)", true
						}
						if li := loopOf(fn, b); li {
							class += "; inside a loop (growth per iteration bounded, number of iterations not decided here)"
						}
					} else if pkg == "bufio" && (name == "NewReaderSize" || name == "NewWriterSize") && len(x.Call.Args) > 1 {
						what = "bufio." + name
						class, ok = sizeClass(x.Call.Args[1], 0)
					} else if pkg == "bytes" && name == "Buffer.Grow" || pkg == "strings" && name == "Builder.Grow" {
						what = pkg + "." + name
						class, ok = sizeClass(x.Call.Args[len(x.Call.Args)-1], 0)
					} else {
						continue
					}
				default:
					continue
				}
				// a size read from the input - even a narrow one - inside a loop: the allocation per iteration (up to 65535 elements)
				// is not covered by the bytes an iteration consumes, so the total is not linear in the input
				if ok && strings.Contains(class, "-bit value") && loopOf(fn, b) {
					class += "; inside a loop: up to that many elements are allocated per iteration, which the input consumed by an iteration does not pay for"
					ok = false
				}
				out = append(out, DFResult{Name: fmt.Sprintf("%s#alloc-bound@%d", fnName(fn), n), OK: ok, Detail: what + ": size is " + class, At: w.posOf(ins.Pos())})
				n++
			}
		}
	}
	sort.Slice(out, func(i, j int) bool { return out[i].Name < out[j].Name })
	return out
}

// sizeClass classifies the size operand of an allocation.
func sizeClass(v ssa.Value, depth int) (string, bool) {
	if depth > 6 {
		return "a computed value", false
	}
	if _, isK := v.(*ssa.Const); !isK {
		if w, _, ok := bvw(v.Type()); ok && w <= 16 {
			return fmt.Sprintf("a %d-bit value (at most %d elements)", w, (1<<uint(w))-1), true
		}
	}
	switch x := v.(type) {
	case *ssa.Const:
		return "constant", true
	case *ssa.Call:
		if b, ok := x.Call.Value.(*ssa.Builtin); ok && (b.Name() == "len" || b.Name() == "cap") {
			return "the length of a value already in memory (len/cap)", true
		}
		if b, ok := x.Call.Value.(*ssa.Builtin); ok && (b.Name() == "min") {
			for _, a := range x.Call.Args {
				if c, ok := sizeClass(a, depth+1); ok {
					return "min(...) with " + c, true
				}
			}
		}
	case *ssa.Convert:
		return sizeClass(x.X, depth+1)
	case *ssa.ChangeType:
		return sizeClass(x.X, depth+1)
	case *ssa.BinOp:
		a, oka := sizeClass(x.X, depth+1)
		b, okb := sizeClass(x.Y, depth+1)
		if oka && okb && (x.Op == token.ADD || x.Op == token.SUB || x.Op == token.MUL && (a == "constant" || b == "constant") || x.Op == token.QUO || x.Op == token.SHR) {
			if a == "constant" {
				return b + " scaled/offset by a constant", true
			}
			return a + " scaled/offset by a constant", true
		}
	case *ssa.UnOp:
		if x.Op == token.MUL {
			if al, ok := x.X.(*ssa.Alloc); ok && !al.Heap {
				// a local: every value stored into it must be bounded
				cls := ""
				for _, r := range *al.Referrers() {
					if st, ok := r.(*ssa.Store); ok && st.Addr == al {
						c, ok := sizeClass(st.Val, depth+1)
						if !ok {
							return "local " + al.Comment + " assigned " + c, false
						}
						cls = c
					}
				}
				if cls != "" {
					return cls, true
				}
			}
			if fa, ok := x.X.(*ssa.FieldAddr); ok {
				st := fa.X.Type().Underlying().(*types.Pointer).Elem().Underlying().(*types.Struct)
				return "the field " + st.Field(fa.Field).Name() + " (a value that may come from the file) without a proved bound", false
			}
		}
	case *ssa.Parameter:
		return "parameter " + x.Name() + " (bounded only by its callers)", false
	case *ssa.Field:
		return "a struct field (a value that may come from the file) without a proved bound", false
	}
	return "a computed value without a proved bound", false
}

// debugSwitchGuard: the instruction only executes when a module-level bool variable is true, and that variable is
// initialised to false (or not at all) and never assigned anywhere in the library. Returns the variable's name.
func (w *World) debugSwitchGuard(ins ssa.Instruction) string {
	b := ins.Block()
	for d := b.Idom(); d != nil; d = d.Idom() {
		if len(d.Instrs) == 0 {
			continue
		}
		iff, ok := d.Instrs[len(d.Instrs)-1].(*ssa.If)
		if !ok {
			continue
		}
		ld, ok := iff.Cond.(*ssa.UnOp)
		if !ok || ld.Op != token.MUL {
			continue
		}
		g, ok := ld.X.(*ssa.Global)
		if !ok || g.Pkg == nil || !strings.HasPrefix(g.Pkg.Pkg.Path(), modulePath) {
			continue
		}
		if !d.Succs[0].Dominates(b) || d.Succs[0] == d.Succs[1] {
			continue
		}
		gi := w.globals[g.String()]
		if gi == nil || gi.stored {
			continue
		}
		if gi.init != nil {
			if id, ok := gi.init.(*ast.Ident); !ok || id.Name != "false" {
				continue
			}
		}
		return relPkg(g.Pkg.Pkg.Path()) + "." + g.Name()
	}
	return ""
}

// writersOf lists the module functions (outside package initialisation) that store to global g or take its address.
func (w *World) writersOf(g *ssa.Global) []string {
	var out []string
	for _, fn := range w.fnList {
		hit := false
		for _, b := range fn.Blocks {
			for _, ins := range b.Instrs {
				if st, ok := ins.(*ssa.Store); ok && st.Addr == ssa.Value(g) {
					hit = true
				}
			}
		}
		if hit {
			out = append(out, fnName(fn))
		}
	}
	if len(out) == 0 {
		out = append(out, "(none: the value is only passed to library calls)")
	}
	return out
}

// ---------- C04 / C05: pool discipline ----------
// In a function that both takes an object from a sync.Pool and returns one to the same pool, no path may execute more
// Put calls (explicit + deferred) than Get calls: a second Put would let two later callers share one scratch object.
func (w *World) passPools(fns []*ssa.Function) []DFResult {
	var out []DFResult
	for _, fn := range fns {
		pools := map[*ssa.Global]bool{}
		eachCall(fn, func(ins ssa.Instruction, com *ssa.CallCommon) {
			pkg, name := calleeOf(com)
			if pkg == "sync" && (name == "Pool.Get" || name == "Pool.Put") && len(com.Args) > 0 {
				if g, ok := com.Args[0].(*ssa.Global); ok {
					pools[g] = true
				}
			}
		})
		for g := range pools {
			gets, puts, dputs := 0, 0, 0
			eachCall(fn, func(ins ssa.Instruction, com *ssa.CallCommon) {
				pkg, name := calleeOf(com)
				if pkg != "sync" || len(com.Args) == 0 || com.Args[0] != ssa.Value(g) {
					return
				}
				_, isDefer := ins.(*ssa.Defer)
				switch name {
				case "Pool.Get":
					gets++
				case "Pool.Put":
					if isDefer {
						dputs++
					} else {
						puts++
					}
				}
			})
			if gets == 0 {
				continue // ownership arrived through an object (e.g. Close returns the buffer taken by the constructor)
			}
			// maximal number of explicit Puts on one path (the CFG is small: longest-path over the acyclic condensation)
			maxPuts := w.maxOnPath(fn, func(ins ssa.Instruction) int {
				if c, ok := ins.(*ssa.Call); ok {
					pkg, name := calleeOf(&c.Call)
					if pkg == "sync" && name == "Pool.Put" && len(c.Call.Args) > 0 && c.Call.Args[0] == ssa.Value(g) {
						return 1
					}
				}
				return 0
			})
			ok := maxPuts+dputs <= gets
			// per path: no path returns more objects to the pool than it took from it (a Put - explicit or deferred - on a path
			// without the matching Get hands the pool an object somebody else owns)
			excess := w.maxOnPathSigned(fn, func(ins ssa.Instruction) int {
				var com *ssa.CallCommon
				switch c := ins.(type) {
				case *ssa.Call:
					com = &c.Call
				case *ssa.Defer:
					com = &c.Call
				default:
					return 0
				}
				pkg, name := calleeOf(com)
				if pkg != "sync" || len(com.Args) == 0 || com.Args[0] != ssa.Value(g) {
					return 0
				}
				switch name {
				case "Pool.Get":
					return -1
				case "Pool.Put":
					return 1
				}
				return 0
			})
			detail := fmt.Sprintf("%d Get, at most %d explicit Put on a path + %d deferred Put of pool %s", gets, maxPuts, dputs, g.Name())
			if excess > 0 {
				ok = false
				detail += fmt.Sprintf("; some path performs %d more Put than Get", excess)
			}
			// no use after Put: once an object is back in the pool somebody else may own it. Deferred calls run last-in-first-out,
			// so a deferred call that mentions the object and is registered BEFORE the deferred Put runs AFTER it.
			if why := useAfterPut(fn, g); why != "" {
				ok = false
				detail += "; " + why
			}
			out = append(out, DFResult{Name: fmt.Sprintf("%s#pool-discipline:%s", fnName(fn), g.Name()), OK: ok,
				Detail: detail, At: w.posOf(fn.Pos())})
			_ = puts
		}
	}
	sort.Slice(out, func(i, j int) bool { return out[i].Name < out[j].Name })
	return out
}

// maxOnPath: maximum over entry-to-exit paths (back edges ignored) of the sum of weight(ins).
func (w *World) maxOnPath(fn *ssa.Function, weight func(ssa.Instruction) int) int {
	back := backEdges(fn)
	memo := map[int]int{}
	var rec func(b *ssa.BasicBlock) int
	rec = func(b *ssa.BasicBlock) int {
		if v, ok := memo[b.Index]; ok {
			return v
		}
		memo[b.Index] = 0
		own := 0
		for _, ins := range b.Instrs {
			own += weight(ins)
		}
		best := 0
		for _, s := range b.Succs {
			if back[[2]int{b.Index, s.Index}] {
				continue
			}
			if v := rec(s); v > best {
				best = v
			}
		}
		memo[b.Index] = own + best
		return own + best
	}
	if len(fn.Blocks) == 0 {
		return 0
	}
	return rec(fn.Blocks[0])
}

// useAfterPut: in fn, a value handed to Pool.Put of pool g is used afterwards - by an instruction reachable behind an explicit
// Put, or by a deferred call registered before a deferred Put (which therefore runs after it).
func useAfterPut(fn *ssa.Function, g *ssa.Global) string {
	// naive-form SSA: every use of a local variable is a fresh load of its cell - identify a value with that cell
	var root func(v ssa.Value) ssa.Value
	root = func(v ssa.Value) ssa.Value {
		switch x := v.(type) {
		case *ssa.MakeInterface:
			return root(x.X)
		case *ssa.TypeAssert:
			return root(x.X)
		case *ssa.ChangeType:
			return root(x.X)
		case *ssa.UnOp:
			if x.Op == token.MUL {
				if a, ok := x.X.(*ssa.Alloc); ok {
					return a
				}
			}
		}
		return v
	}
	mentions := func(ins ssa.Instruction, v ssa.Value) bool {
		if st, ok := ins.(*ssa.Store); ok && st.Addr == v {
			return false // re-assignment of the variable itself is not a use of the object
		}
		for _, op := range ins.Operands(nil) {
			if *op == nil {
				continue
			}
			if root(*op) == v {
				return true
			}
			if mc, ok := (*op).(*ssa.MakeClosure); ok {
				for _, b := range mc.Bindings {
					if root(b) == v || b == v {
						return true
					}
				}
			}
		}
		return false
	}
	putArg := func(com *ssa.CallCommon) ssa.Value {
		pkg, name := calleeOf(com)
		if pkg != "sync" || name != "Pool.Put" || len(com.Args) < 2 || com.Args[0] != ssa.Value(g) {
			return nil
		}
		return root(com.Args[1])
	}
	// position of every instruction in a linearisation that respects block order within a block
	for _, b := range fn.Blocks {
		for i, ins := range b.Instrs {
			switch x := ins.(type) {
			case *ssa.Defer:
				v := putArg(&x.Call)
				if v == nil {
					continue
				}
				// deferred Put of v: a Defer that mentions v and executes earlier on some path (same block before it, or a
				// dominating block) runs after the Put
				for _, b2 := range fn.Blocks {
					for j, ins2 := range b2.Instrs {
						d2, ok := ins2.(*ssa.Defer)
						if !ok || d2 == x || putArg(&d2.Call) != nil {
							continue
						}
						if !mentions(d2, v) {
							continue
						}
						if (b2 == b && j < i) || (b2 != b && b2.Dominates(b)) {
							return "a deferred call registered before the deferred Put uses the pooled object: it runs after the object has been returned to the pool"
						}
					}
				}
			case *ssa.Call:
				v := putArg(&x.Call)
				if v == nil {
					continue
				}
				// explicit Put: any later instruction of the same block, or of a block reachable from it, that mentions v
				for _, ins2 := range b.Instrs[i+1:] {
					if mentions(ins2, v) {
						return "the pooled object is used after it has been returned to the pool"
					}
				}
				seen := map[*ssa.BasicBlock]bool{}
				work := append([]*ssa.BasicBlock{}, b.Succs...)
				for len(work) > 0 {
					c := work[len(work)-1]
					work = work[:len(work)-1]
					if seen[c] {
						continue
					}
					seen[c] = true
					for _, ins2 := range c.Instrs {
						if mentions(ins2, v) {
							return "the pooled object is used after it has been returned to the pool"
						}
					}
					work = append(work, c.Succs...)
				}
			}
		}
	}
	return ""
}

// maxOnPathSigned: like maxOnPath for weights of either sign (maximum over complete entry-to-exit paths, back edges ignored).
func (w *World) maxOnPathSigned(fn *ssa.Function, weight func(ssa.Instruction) int) int {
	back := backEdges(fn)
	memo := map[int]int{}
	done := map[int]bool{}
	var rec func(b *ssa.BasicBlock) int
	rec = func(b *ssa.BasicBlock) int {
		if done[b.Index] {
			return memo[b.Index]
		}
		done[b.Index] = true
		own := 0
		for _, ins := range b.Instrs {
			own += weight(ins)
		}
		best, any := 0, false
		for _, s := range b.Succs {
			if back[[2]int{b.Index, s.Index}] {
				continue
			}
			if v := rec(s); !any || v > best {
				best, any = v, true
			}
		}
		memo[b.Index] = own + best
		return own + best
	}
	if len(fn.Blocks) == 0 {
		return 0
	}
	return rec(fn.Blocks[0])
}

// loopOf: block b lies on a cycle of fn's control-flow graph.
func loopOf(fn *ssa.Function, b *ssa.BasicBlock) bool {
	for li := range findLoopsBlocks(fn) {
		if li == b.Index {
			return true
		}
	}
	return false
}

var loopBlocksCache = map[*ssa.Function]map[int]bool{}

func findLoopsBlocks(fn *ssa.Function) map[int]bool {
	if m, ok := loopBlocksCache[fn]; ok {
		return m
	}
	m := map[int]bool{}
	for _, li := range findLoops(fn, nil) {
		for bi := range li.blocks {
			m[bi] = true
		}
	}
	loopBlocksCache[fn] = m
	return m
}

// ---------- C04: pooled memory never escapes into results; pooled pixel buffers are fully overwritten ----------

var errType = types.Universe.Lookup("error").Type()

// pooledElemTypes: the element types of the declared pools, as type strings ("*exif2.buffer", "*bufio.Reader", "*[]float64").
func (w *World) pooledElemTypes() map[string]bool {
	out := map[string]bool{}
	for g, t := range w.pools {
		pkg := w.poolPkg[g]
		s := t
		if strings.HasPrefix(s, "*") && !strings.Contains(s, ".") && !strings.HasPrefix(s, "*[]") && pkg != "" {
			s = "*" + pkg + "." + s[1:]
		}
		out[s] = true
	}
	return out
}

func relTypeString(t types.Type) string {
	return types.TypeString(t, func(p *types.Package) string { return relPkg(p.Path()) })
}

// refLike: can a value of this type reference memory (so that copying it does not copy what it refers to)?
func refLike(t types.Type) bool {
	switch u := t.Underlying().(type) {
	case *types.Pointer, *types.Slice, *types.Map, *types.Chan, *types.Interface, *types.Signature:
		return true
	case *types.Struct:
		for i := 0; i < u.NumFields(); i++ {
			if refLike(u.Field(i).Type()) {
				return true
			}
		}
	case *types.Array:
		return refLike(u.Elem())
	case *types.Tuple:
		for i := 0; i < u.Len(); i++ {
			if refLike(u.At(i).Type()) {
				return true
			}
		}
	}
	return false
}

// passPoolEscape: taint analysis over go/ssa. A value is POOLED when it refers into an object taken from a sync.Pool (the
// object itself, an interior pointer, a slice of one of its arrays, a slice handed out by a pooled bufio.Reader). Struct
// values and local variables are tracked per field path. Obligation per function: no pooled reference is stored into
// memory that outlives the call (a field of a non-pooled heap object, a package variable) - except into a field whose
// type is the pool's element type (reader structs hold their pooled buffer for the duration of a decode) - and, for the
// entry points, no result contains one. Summaries (which parts of which result are pooled / derived from which parameter)
// are computed to a fixpoint over the module call graph. Strings made by string([]byte) and scalars are copies.
func (w *World) passPoolEscape(fns []*ssa.Function, roots []string) []DFResult {
	pooledT := w.pooledElemTypes()
	isPooledType := func(t types.Type) bool { return pooledT[relTypeString(t)] }
	type taint struct {
		paths map[string]bool // field paths ("" = the value itself) that hold a reference into pooled memory
		from  map[int]bool    // may refer into memory reachable from these parameters
	}
	empty := func(t taint) bool { return len(t.paths) == 0 && len(t.from) == 0 }
	merge := func(a *taint, b taint, prefix string) bool {
		ch := false
		for p := range b.paths {
			k := p
			if prefix != "" {
				if p == "" {
					k = prefix
				} else {
					k = prefix + "." + p
				}
			}
			if !a.paths[k] {
				if a.paths == nil {
					a.paths = map[string]bool{}
				}
				a.paths[k] = true
				ch = true
			}
		}
		for k := range b.from {
			if !a.from[k] {
				if a.from == nil {
					a.from = map[int]bool{}
				}
				a.from[k] = true
				ch = true
			}
		}
		return ch
	}
	// sub-taint of a struct value / cell at a field path
	sub := func(t taint, path string) taint {
		out := taint{from: t.from}
		for p := range t.paths {
			switch {
			case p == path:
				if out.paths == nil {
					out.paths = map[string]bool{}
				}
				out.paths[""] = true
			case strings.HasPrefix(p, path+"."):
				if out.paths == nil {
					out.paths = map[string]bool{}
				}
				out.paths[p[len(path)+1:]] = true
			case p == "" || strings.HasPrefix(path, p+"."):
				if out.paths == nil {
					out.paths = map[string]bool{}
				}
				out.paths[""] = true
			}
		}
		return out
	}
	type summary struct {
		res []taint // per result
	}
	sums := map[*ssa.Function]*summary{}
	inSet := map[*ssa.Function]bool{}
	for _, f := range fns {
		inSet[f] = true
		sums[f] = &summary{res: make([]taint, f.Signature.Results().Len())}
	}
	fieldName := func(x ssa.Value, idx int) string {
		t := x.Type()
		if pt, ok := t.Underlying().(*types.Pointer); ok {
			t = pt.Elem()
		}
		if st, ok := t.Underlying().(*types.Struct); ok && idx < st.NumFields() {
			return st.Field(idx).Name()
		}
		return fmt.Sprint(idx)
	}
	typeAt := func(t types.Type, path string) types.Type {
		if path == "" {
			return t
		}
		for _, f := range strings.Split(path, ".") {
			st, ok := t.Underlying().(*types.Struct)
			if !ok {
				return nil
			}
			var ft types.Type
			for i := 0; i < st.NumFields(); i++ {
				if st.Field(i).Name() == f {
					ft = st.Field(i).Type()
				}
			}
			if ft == nil {
				return nil
			}
			t = ft
		}
		return t
	}
	var viol map[*ssa.Function][]string
	analyse := func(fn *ssa.Function, report bool) bool {
		tv := map[ssa.Value]*taint{}
		cells := map[*ssa.Alloc]*taint{} // contents of local variables, per field path
		var resolve func(a ssa.Value) (*ssa.Alloc, string, bool)
		resolve = func(a ssa.Value) (*ssa.Alloc, string, bool) {
			switch x := a.(type) {
			case *ssa.Alloc:
				return x, "", true
			case *ssa.FieldAddr:
				if al, p, ok := resolve(x.X); ok {
					n := fieldName(x.X, x.Field)
					if p != "" {
						n = p + "." + n
					}
					return al, n, true
				}
			}
			return nil, "", false
		}
		get := func(v ssa.Value) taint {
			if v == nil {
				return taint{}
			}
			t := taint{}
			if x, ok := tv[v]; ok {
				t = *x
			}
			if isPooledType(v.Type()) {
				t2 := taint{}
				merge(&t2, t, "")
				merge(&t2, taint{paths: map[string]bool{"": true}}, "")
				return t2
			}
			return t
		}
		set := func(v ssa.Value, t taint) bool {
			if empty(t) || !refLike(v.Type()) {
				return false
			}
			if types.Identical(v.Type(), errType) {
				return false // error values are sentinels / freshly built messages, never references into buffers (assumed for dependencies)
			}
			if tup, ok := v.Type().(*types.Tuple); ok && len(t.paths) > 0 && t.paths[""] {
				// a tuple from a dependency call: only its non-error reference components can alias the buffers
				nt := taint{from: t.from, paths: map[string]bool{}}
				for i := 0; i < tup.Len(); i++ {
					if refLike(tup.At(i).Type()) && !types.Identical(tup.At(i).Type(), errType) {
						nt.paths[fmt.Sprintf("#%d", i)] = true
					}
				}
				for p := range t.paths {
					if p != "" {
						nt.paths[p] = true
					}
				}
				t = nt
			}
			cur, ok := tv[v]
			if !ok {
				cur = &taint{}
				tv[v] = cur
			}
			return merge(cur, t, "")
		}
		whole := func(t taint) taint { // interior pointer / slice of something pooled: the derived reference is pooled itself
			if len(t.paths) > 0 {
				return taint{paths: map[string]bool{"": true}, from: t.from}
			}
			return taint{from: t.from}
		}
		for i, p := range fn.Params {
			if refLike(p.Type()) {
				set(p, taint{from: map[int]bool{i: true}})
			}
		}
		for iter := 0; iter < 16; iter++ {
			ch := false
			for _, b := range fn.Blocks {
				for _, ins := range b.Instrs {
					switch x := ins.(type) {
					case *ssa.FieldAddr:
						if _, _, ok := resolve(x); ok {
							break // address of a local field: contents are tracked in cells
						}
						ch = set(x, whole(get(x.X))) || ch
					case *ssa.IndexAddr:
						ch = set(x, whole(get(x.X))) || ch
					case *ssa.Slice:
						if al, p, ok := resolve(x.X); ok {
							// slicing a local array: the slice refers to the local, pooled only if the array cell is
							_ = al
							_ = p
							break
						}
						ch = set(x, whole(get(x.X))) || ch
					case *ssa.Field:
						ch = set(x, sub(get(x.X), fieldName(x.X, x.Field))) || ch
					case *ssa.Index:
						ch = set(x, whole(get(x.X))) || ch
					case *ssa.ChangeType:
						ch = set(x, get(x.X)) || ch
					case *ssa.ChangeInterface:
						ch = set(x, get(x.X)) || ch
					case *ssa.MakeInterface:
						ch = set(x, whole(get(x.X))) || ch
					case *ssa.TypeAssert:
						ch = set(x, whole(get(x.X))) || ch
					case *ssa.Extract:
						t := get(x.Tuple)
						ch = set(x, sub(t, fmt.Sprintf("#%d", x.Index))) || ch
					case *ssa.Convert:
						if _, isStr := x.Type().Underlying().(*types.Basic); isStr {
							break
						}
						if _, fromStr := x.X.Type().Underlying().(*types.Basic); fromStr {
							break
						}
						ch = set(x, get(x.X)) || ch
					case *ssa.Phi:
						for _, e := range x.Edges {
							ch = set(x, get(e)) || ch
						}
					case *ssa.UnOp:
						if x.Op != token.MUL {
							break
						}
						if al, p, ok := resolve(x.X); ok {
							if c := cells[al]; c != nil {
								ch = set(x, sub(*c, p)) || ch
							}
							break
						}
						// load through a pointer: contents of pooled memory are pooled, contents of parameter memory
						// derive from the parameter
						ch = set(x, whole(get(x.X))) || ch
					case *ssa.Store:
						if al, p, ok := resolve(x.Addr); ok {
							t := get(x.Val)
							if !empty(t) {
								c := cells[al]
								if c == nil {
									c = &taint{}
									cells[al] = c
								}
								ch = merge(c, t, p) || ch
							}
						} else if ia, ok := x.Addr.(*ssa.IndexAddr); ok {
							if al, p, ok := resolve(ia.X); ok {
								t := whole(get(x.Val))
								if !empty(t) {
									c := cells[al]
									if c == nil {
										c = &taint{}
										cells[al] = c
									}
									ch = merge(c, t, p) || ch
								}
							}
						}
					case *ssa.Call:
						com := &x.Call
						pkg, name := calleeOf(com)
						if pkg == "sync" && name == "Pool.Get" {
							ch = set(x, taint{paths: map[string]bool{"": true}}) || ch
							break
						}
						if callee := com.StaticCallee(); callee != nil && inSet[callee] {
							s := sums[callee]
							t := taint{}
							for ri, rt := range s.res {
								pfx := ""
								if len(s.res) > 1 {
									pfx = fmt.Sprintf("#%d", ri)
								}
								merge(&t, taint{paths: rt.paths}, pfx)
								for k := range rt.from {
									if k < len(com.Args) {
										a := get(com.Args[k])
										// the result may refer into what the argument refers into
										merge(&t, whole(a), pfx)
									}
								}
							}
							ch = set(x, t) || ch
							break
						}
						if b, ok := com.Value.(*ssa.Builtin); ok {
							if b.Name() == "append" && len(com.Args) > 0 {
								ch = set(x, get(com.Args[0])) || ch
							}
							// unsafe.SliceData / unsafe.Slice / unsafe.StringData: the result points into what the argument points into
							if (b.Name() == "SliceData" || b.Name() == "Slice" || b.Name() == "StringData") && len(com.Args) > 0 {
								ch = set(x, whole(get(com.Args[0]))) || ch
							}
							break
						}
						if refLike(x.Type()) {
							t := taint{}
							for _, a := range com.Args {
								merge(&t, whole(get(a)), "")
							}
							if com.IsInvoke() {
								merge(&t, whole(get(com.Value)), "")
							}
							if callee := com.StaticCallee(); callee != nil && callee.Pkg != nil {
								switch callee.Pkg.Pkg.Path() {
								case "errors", "fmt", "github.com/pkg/errors", "strconv", "time", "strings", "github.com/rs/zerolog":
									t = taint{} // results are fresh / not references into the arguments' buffers
								}
							}
							ch = set(x, t) || ch
						}
					}
				}
			}
			if !ch {
				break
			}
		}
		changedSummary := false
		s := sums[fn]
		isRoot := false
		for _, rt := range roots {
			if matched(rt, fnName(fn)) {
				isRoot = true
			}
		}
		for _, b := range fn.Blocks {
			for _, ins := range b.Instrs {
				switch x := ins.(type) {
				case *ssa.Return:
					for ri, r := range x.Results {
						if !refLike(r.Type()) {
							continue
						}
						t := get(r)
						if merge(&s.res[ri], t, "") {
							changedSummary = true
						}
						if report && isRoot {
							for p := range t.paths {
								if ft := typeAt(r.Type(), p); ft != nil && isPooledType(ft) {
									continue
								}
								viol[fn] = append(viol[fn], fmt.Sprintf("result %d%s holds a reference into pooled memory (return at %s)", ri, map[bool]string{true: "", false: " field " + p}[p == ""], w.posOf(x.Pos())))
							}
						}
					}
				case *ssa.Call:
					// unsafe.String over pooled memory: a string that aliases a scratch buffer (strings are otherwise copies and are
					// not tracked), whatever happens to it afterwards
					if b, ok := x.Call.Value.(*ssa.Builtin); ok && report && b.Name() == "String" && len(x.Call.Args) > 0 {
						if t := get(x.Call.Args[0]); len(t.paths) > 0 {
							viol[fn] = append(viol[fn], fmt.Sprintf("unsafe.String over pooled memory: the string aliases a scratch buffer (at %s)", w.posOf(x.Pos())))
						}
					}
				case *ssa.Store:
					if !report {
						continue
					}
					if _, _, ok := resolve(x.Addr); ok {
						continue
					}
					if ia, ok := x.Addr.(*ssa.IndexAddr); ok {
						if _, _, ok := resolve(ia.X); ok {
							continue
						}
					}
					t := get(x.Val)
					if len(t.paths) == 0 || !refLike(x.Val.Type()) {
						continue
					}
					if len(get(x.Addr).paths) > 0 {
						continue // into pooled memory itself
					}
					if fa, ok := x.Addr.(*ssa.FieldAddr); ok {
						// a direct field of a reader object that holds pooled resources for the duration of a call
						// (jpegReader.buf next to jpegReader.br): such objects are created per call and not returned
						if pt, ok := fa.X.Type().Underlying().(*types.Pointer); ok {
							if stt, ok := pt.Elem().Underlying().(*types.Struct); ok {
								holder := false
								for i := 0; i < stt.NumFields(); i++ {
									if isPooledType(stt.Field(i).Type()) {
										holder = true
									}
								}
								if holder {
									continue
								}
							}
						}
					}
					for p := range t.paths {
						if ft := typeAt(x.Val.Type(), p); ft != nil && isPooledType(ft) {
							continue // a holder field of the pool's element type
						}
						viol[fn] = append(viol[fn], fmt.Sprintf("stores a reference into pooled memory (%s%s) outside the pooled object at %s", relTypeString(x.Val.Type()), map[bool]string{true: "", false: " field " + p}[p == ""], w.posOf(x.Pos())))
					}
				}
			}
		}
		return changedSummary
	}
	for round := 0; round < 10; round++ {
		ch := false
		for _, fn := range fns {
			if analyse(fn, false) {
				ch = true
			}
		}
		if !ch {
			break
		}
	}
	viol = map[*ssa.Function][]string{}
	var out []DFResult
	for _, fn := range fns {
		analyse(fn, true)
		d := "no reference into pooled memory is stored outside the pooled object, a holder field or a local"
		for _, rt := range roots {
			if matched(rt, fnName(fn)) {
				d += "; no result holds one (entry point)"
			}
		}
		ok := len(viol[fn]) == 0
		if !ok {
			seen := map[string]bool{}
			var vs []string
			for _, v := range viol[fn] {
				if !seen[v] {
					seen[v] = true
					vs = append(vs, v)
				}
			}
			d = strings.Join(vs, "; ")
		}
		out = append(out, DFResult{Name: fnName(fn) + "#pool-escape", OK: ok, Detail: d, At: w.posOf(fn.Pos())})
	}
	sort.Slice(out, func(i, j int) bool { return out[i].Name < out[j].Name })
	return out
}

// passPoolFill: pooled pixel buffers ([]float32 / []float64 parameters of the conversion kernels) hold whatever the previous
// user left. Obligation per store loop: every iteration of a loop that stores into the buffer performs the store - the
// store's block dominates every back edge of its innermost loop - so no element of the iterated range keeps a stale value.
// (That the iterated range is the whole buffer is the size guard of C19.)
func (w *World) passPoolFill(fns []*ssa.Function) []DFResult {
	var out []DFResult
	for _, fn := range fns {
		if fn.Pkg == nil || !strings.Contains(fn.Pkg.Pkg.Path(), "/imagehash") {
			continue
		}
		// buffer parameters: slices of float32/float64 (or pointers to such slices)
		bufParam := map[ssa.Value]bool{}
		for _, p := range fn.Params {
			t := p.Type()
			if pt, ok := t.Underlying().(*types.Pointer); ok {
				t = pt.Elem()
			}
			if sl, ok := t.Underlying().(*types.Slice); ok {
				if b, ok := sl.Elem().Underlying().(*types.Basic); ok && (b.Kind() == types.Float32 || b.Kind() == types.Float64) {
					bufParam[p] = true
				}
			}
		}
		hasImage := false
		for _, p := range fn.Params {
			if strings.Contains(types.TypeString(p.Type(), nil), "image.") {
				hasImage = true
			}
		}
		if len(bufParam) == 0 || !hasImage {
			continue // only the image -> gray conversion kernels fill a pooled buffer from scratch
		}
		derives := func(v ssa.Value) bool {
			for d := 0; d < 8; d++ {
				if bufParam[v] {
					return true
				}
				switch x := v.(type) {
				case *ssa.UnOp:
					v = x.X
				case *ssa.Slice:
					v = x.X
				case *ssa.IndexAddr:
					v = x.X
				case *ssa.Alloc:
					// spilled parameter in naive form: find the store of a parameter into it
					found := false
					for _, r := range *x.Referrers() {
						if st, ok := r.(*ssa.Store); ok && st.Addr == x && bufParam[st.Val] {
							found = true
						}
					}
					return found
				default:
					return false
				}
			}
			return false
		}
		loops := findLoops(fn, w.fset)
		dom := dominators(fn)
		n := 0
		for _, b := range fn.Blocks {
			for _, ins := range b.Instrs {
				st, ok := ins.(*ssa.Store)
				if !ok {
					continue
				}
				ia, ok := st.Addr.(*ssa.IndexAddr)
				if !ok || !derives(ia.X) {
					continue
				}
				// innermost loop containing the store
				var inner *loopInfo
				for _, li := range loops {
					if li.blocks[b.Index] && (inner == nil || len(li.blocks) < len(inner.blocks)) {
						inner = li
					}
				}
				if inner == nil {
					continue
				}
				okAll := true
				for _, lb := range fn.Blocks {
					if !inner.blocks[lb.Index] {
						continue
					}
					for _, s := range lb.Succs {
						if s.Index == inner.header && !dom[lb.Index][b.Index] {
							okAll = false
						}
					}
				}
				n++
				d := "the store is executed by every iteration of its loop"
				if !okAll {
					d = "an iteration of the loop can reach the back edge without executing this store: elements of the pooled buffer may keep stale values"
				}
				out = append(out, DFResult{Name: fmt.Sprintf("%s#pool-fill@%d", fnName(fn), n), OK: okAll, Detail: d, At: w.posOf(st.Pos())})
			}
		}
	}
	sort.Slice(out, func(i, j int) bool { return out[i].Name < out[j].Name })
	return out
}

// dominators: dom[b][a] == true iff block a dominates block b (simple iterative algorithm; the CFGs are small).
func dominators(fn *ssa.Function) []map[int]bool {
	n := len(fn.Blocks)
	dom := make([]map[int]bool, n)
	all := map[int]bool{}
	for i := 0; i < n; i++ {
		all[i] = true
	}
	for i := range dom {
		if i == 0 {
			dom[i] = map[int]bool{0: true}
		} else {
			m := map[int]bool{}
			for k := range all {
				m[k] = true
			}
			dom[i] = m
		}
	}
	for changed := true; changed; {
		changed = false
		for i := 1; i < n; i++ {
			b := fn.Blocks[i]
			var inter map[int]bool
			for _, p := range b.Preds {
				if inter == nil {
					inter = map[int]bool{}
					for k := range dom[p.Index] {
						inter[k] = true
					}
				} else {
					for k := range inter {
						if !dom[p.Index][k] {
							delete(inter, k)
						}
					}
				}
			}
			if inter == nil {
				inter = map[int]bool{}
			}
			inter[i] = true
			if len(inter) != len(dom[i]) {
				dom[i] = inter
				changed = true
			}
		}
	}
	return dom
}


// ---------- reads frames ----------
// A contract clause `reads p.a.b, p.c` states that the function's result depends on nothing of its parameters but the listed
// field paths. Decided syntactically on the SSA: every load from memory rooted at a parameter must lie inside a listed path,
// and no address rooted at a parameter may escape into a call or a store (which could read anything through it).
func (w *World) passReadsFrame(cfg *PropCfg) []DFResult {
	fieldName := func(x ssa.Value, idx int) string {
		t := x.Type()
		if pt, ok := t.Underlying().(*types.Pointer); ok {
			t = pt.Elem()
		}
		if st, ok := t.Underlying().(*types.Struct); ok && idx < st.NumFields() {
			return st.Field(idx).Name()
		}
		return fmt.Sprint(idx)
	}
	var out []DFResult
	var names []string
	for nm, ct := range w.contracts {
		if len(ct.Reads) > 0 && hasProp(ct.Props, cfg.ID) {
			names = append(names, nm)
		}
	}
	sort.Strings(names)
	for _, nm := range names {
		ct := w.contracts[nm]
		fn := w.fns[nm]
		if fn == nil {
			continue
		}
		allowed := func(path string) bool {
			for _, d := range ct.Reads {
				if path == d || strings.HasPrefix(path, d+".") {
					return true
				}
			}
			return false
		}
		// root path of an address / value: parameter name + field path
		spill := map[*ssa.Alloc]string{} // local cell holding a parameter
		for _, b := range fn.Blocks {
			for _, ins := range b.Instrs {
				if st, ok := ins.(*ssa.Store); ok {
					if a, ok := st.Addr.(*ssa.Alloc); ok {
						if p, ok := st.Val.(*ssa.Parameter); ok {
							spill[a] = p.Name()
						}
					}
				}
			}
		}
		var path func(v ssa.Value) (string, bool)
		path = func(v ssa.Value) (string, bool) {
			switch x := v.(type) {
			case *ssa.Parameter:
				return x.Name(), true
			case *ssa.Alloc:
				if n, ok := spill[x]; ok {
					return n, true
				}
			case *ssa.FieldAddr:
				if p, ok := path(x.X); ok {
					return p + "." + fieldName(x.X, x.Field), true
				}
			case *ssa.Field:
				if p, ok := path(x.X); ok {
					return p + "." + fieldName(x.X, x.Field), true
				}
			case *ssa.UnOp:
				// a pointer parameter loaded from its cell: still the parameter
				if x.Op == token.MUL {
					if a, ok := x.X.(*ssa.Alloc); ok {
						if n, ok := spill[a]; ok {
							if _, isPtr := a.Type().(*types.Pointer).Elem().Underlying().(*types.Pointer); isPtr {
								return n, true
							}
						}
					}
				}
			}
			return "", false
		}
		var bad []string
		for _, b := range fn.Blocks {
			for _, ins := range b.Instrs {
				switch x := ins.(type) {
				case *ssa.UnOp:
					if x.Op != token.MUL {
						continue
					}
					p, ok := path(x.X)
					if !ok {
						continue
					}
					if a, isA := x.X.(*ssa.Alloc); isA {
						if _, isSpill := spill[a]; isSpill {
							// loading the parameter cell itself: fine for pointers (handled by path), a whole-struct copy otherwise
							if _, isPtr := a.Type().(*types.Pointer).Elem().Underlying().(*types.Pointer); isPtr {
								continue
							}
						}
					}
					if !allowed(p) {
						bad = append(bad, "reads "+p+" at "+w.posOf(x.Pos()))
					}
				case *ssa.Field:
					if p, ok := path(x); ok && !allowed(p) {
						// only leaf uses matter; an intermediate Field feeding another Field is checked there
						leaf := true
						for _, r := range *x.Referrers() {
							if _, ok := r.(*ssa.Field); ok {
								leaf = false
							}
						}
						if leaf {
							bad = append(bad, "reads "+p+" at "+w.posOf(x.Pos()))
						}
					}
				case *ssa.Call:
					for _, a := range x.Call.Args {
						if _, isAddr := a.(*ssa.FieldAddr); isAddr {
							if p, ok := path(a); ok {
								bad = append(bad, "passes the address of "+p+" to a call at "+w.posOf(x.Pos()))
							}
						}
						if al, isAl := a.(*ssa.Alloc); isAl {
							if n, ok := spill[al]; ok {
								bad = append(bad, "passes the address of parameter "+n+" to a call at "+w.posOf(x.Pos()))
							}
						}
					}
				}
			}
		}
		sort.Strings(bad)
		out = append(out, DFResult{Name: nm + "#reads", OK: len(bad) == 0, Detail: "reads only " + strings.Join(ct.Reads, ", ") + map[bool]string{true: "", false: "; but " + strings.Join(bad, "; ")}[len(bad) == 0], At: ct.Loc})
	}
	return out
}
