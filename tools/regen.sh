#!/bin/bash
# Re-runs every claimed quick check on the current (unchanged) tree so that the committed evidence files are clean records.
cd /verif
if [ -n "$(git -C /repo status --short)" ]; then echo "/repo has uncommitted changes: refusing"; exit 2; fi
rc=0
for p in $(python3 -c "import json;print(' '.join(c['property_id'] for c in json.load(open('/verif/MANIFEST.json'))['checks']))"); do
  bin/check $p quick | grep -E "SUMMARY|VIOLATION|ERROR|KNOWN" | cut -c1-200 || rc=1
done
python3-vt - <<'PY'
import json, jsonschema, glob
s=json.load(open('/root/.vp/EVIDENCE.schema.json'))
for c in json.load(open('/verif/MANIFEST.json'))['checks']:
    e=json.load(open('/verif/'+c['evidence_file'])); jsonschema.validate(e,s)
    cov=e['coverage']; ok = cov['obligations']==cov['discharged'] and e['violations']==0
    print(c['property_id'], 'evidence ok' if ok else 'EVIDENCE MISMATCH', cov['obligations'], cov['discharged'])
jsonschema.validate(json.load(open('/verif/MANIFEST.json')), json.load(open('/root/.vp/MANIFEST.schema.json'))); print('manifest ok')
PY
