#!/bin/bash
# usage: tools/seedcheck.sh <seeded dir> <demo dest dir relative to module root> [extra go test flags]
# Confirms, in a scratch worktree of /repo HEAD (removed afterwards): the patch applies, the module builds, the pinned
# suite passes with the patch, the demo FAILS with the patch and PASSES without it. Prints one RESULT line.
export GOFLAGS=-mod=mod GOPROXY=off GOSUMDB=off GOTOOLCHAIN=local
SD="$(cd "$1" && pwd)"; DEST="$2"; shift 2; EXTRA="$@"
WT=$(mktemp -d /tmp/seedchk.XXXXXX); rmdir "$WT"
git -C /repo worktree add --detach "$WT" HEAD >/dev/null 2>&1 || { echo "RESULT $SD worktree-failed"; exit 2; }
cleanup() { git -C /repo worktree remove --force "$WT" >/dev/null 2>&1; rm -rf "$WT"; }
trap cleanup EXIT
cd "$WT"
if ! git apply "$SD/patch.diff" 2>/tmp/seedchk.err; then
  if ! git apply -3 "$SD/patch.diff" 2>>/tmp/seedchk.err; then echo "RESULT $SD patch-does-not-apply: $(head -3 /tmp/seedchk.err | tr '\n' ' ')"; exit 1; fi
fi
go build ./... >/tmp/seedchk.build 2>&1 || { echo "RESULT $SD build-fails-with-patch"; head -5 /tmp/seedchk.build; exit 1; }
if ! go test -vet=off -count=1 ./... >/tmp/seedchk.suite 2>&1; then echo "RESULT $SD suite-fails-with-patch"; grep -v "^ok" /tmp/seedchk.suite | head; exit 1; fi
cp "$SD/demo_test.go" "$WT/$DEST/zz_seeded_demo_test.go"
go test -vet=off -count=1 -timeout 120s $EXTRA -run TestSeeded "./$DEST" >/tmp/seedchk.with 2>&1; W=$?
git checkout -- . 2>/dev/null; git reset -q --hard HEAD >/dev/null 2>&1; cp "$SD/demo_test.go" "$WT/$DEST/zz_seeded_demo_test.go"
go test -vet=off -count=1 -timeout 120s $EXTRA -run TestSeeded "./$DEST" >/tmp/seedchk.without 2>&1; WO=$?
if [ $W -ne 0 ] && [ $WO -eq 0 ]; then echo "RESULT $SD confirmed (demo fails with patch, passes without; suite passes with patch)"; exit 0; fi
echo "RESULT $SD NOT-confirmed with=$W without=$WO"; tail -5 /tmp/seedchk.with; tail -5 /tmp/seedchk.without; exit 1
