#!/usr/bin/env python3
"""One-off helper (NOT run by any check): extracts the documented value->name tables from the doc comments
above enum type declarations in /repo and prints //@ contract blocks for their String() methods.
The output was reviewed and pasted into the zz_verif_contracts.go files; the oracle is the documentation,
not the string tables the code indexes."""
import re, sys, os, glob
root = sys.argv[1] if len(sys.argv) > 1 else '/repo'
pair = re.compile(r'^\s*//\s*(-?\d+|0x[0-9a-fA-F]+|[A-Za-z_]\w*)\s*:\s*"([^"]*)"')
for path in sorted(glob.glob(root + '/**/*.go', recursive=True)):
    if path.endswith('_test.go') or path.endswith('_gen.go') or 'zz_verif' in path: continue
    lines = open(path).read().split('\n')
    src = '\n'.join(lines)
    i = 0
    while i < len(lines):
        m = re.match(r'^type\s+(\w+)\s+(u?int\d*|uint8|byte)\s*$', lines[i])
        if m:
            tname = m.group(1)
            pairs = []
            j = i - 1
            while j >= 0 and lines[j].lstrip().startswith('//'):
                pm = pair.match(lines[j])
                if pm: pairs.append((pm.group(1), pm.group(2)))
                j -= 1
            pairs.reverse()
            sm = re.search(r'func \((\w+) \*?' + tname + r'\) String\(\) string', src)
            if pairs and sm:
                rv = sm.group(1)
                print('// %s  (%s)' % (os.path.relpath(path, root), tname))
                print('//@ func %s.String' % tname)
                print('//@   props C17')
                print('//@   pure')
                for v, n in pairs:
                    print('//@   ensures [C17] %s == %s ==> r0 == "%s"' % (rv, v, n))
                print()
        i += 1
