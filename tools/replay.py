#!/usr/bin/env python3
"""Re-executes a replay file produced by vcgo (the generated in-package test, via go test -overlay)."""
import json, os, subprocess, sys
d = json.load(open(sys.argv[1]))
print("obligation:", d.get("obligation"), "| status recorded:", d.get("status"))
cmd = d.get("replay_cmd")
if not cmd:
    print("no executable replay for this obligation:", d.get("reason")); sys.exit(0)
env = dict(os.environ, GOFLAGS="-mod=mod", GOPROXY="off", GOSUMDB="off", GOTOOLCHAIN="local")
sys.exit(subprocess.call(["bash", "-c", cmd], env=env))
