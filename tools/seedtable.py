#!/usr/bin/env python3
"""Prints the markdown table of DESIGN.md section 0.5 from seeded/*/meta.json (which check reports which seeded change)."""
import json, glob, os
rows=[]
for d in sorted(glob.glob('/verif/seeded/*/')):
    m=json.load(open(d+'meta.json'))
    cb=m.get('caught_by') or {}
    if cb:
        parts=[]
        for p,v in sorted(cb.items()):
            ob=', '.join(o.replace('___','.').replace('__','.') for o in v.get('obligations',[])[:2])
            parts.append('%s (%d viol., %d with counterexample): %s'%(p,v.get('violations',0),v.get('definite',0),ob))
        caught='; '.join(parts)
    else:
        caught='**not reported**'
    rows.append('| %s | %s | %s | %s |'%(m['id'], m.get('breaks','').replace('|','/').replace('\n',' ')[:140], ', '.join(m.get('files_touched',[])), caught))
print('| seed | change | file | reported by |\n|---|---|---|---|')
print('\n'.join(rows))
