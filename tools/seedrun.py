#!/usr/bin/env python3
"""Runs the claimed quick checks against every seeded change (each applied to a scratch worktree of /repo HEAD, removed
afterwards; evidence/replays go to a scratch dir, never to /verif/evidence) and records in seeded/<id>/meta.json which
checks report a violation.  usage: tools/seedrun.py [seed ids...]"""
import json, subprocess, sys, os, shutil, tempfile
sys.stdout.reconfigure(line_buffering=True)
V='/verif'
# the run works from a snapshot of the binary, specs and known findings so that engine work can go on meanwhile
VS=tempfile.mkdtemp(prefix='seedrun-verif-')
shutil.copytree(V+'/specs',VS+'/specs'); shutil.copy(V+'/known_findings.json',VS); shutil.copy(V+'/properties.jsonl',VS); shutil.copy(V+'/MANIFEST.json',VS)
os.makedirs(VS+'/bin'); shutil.copy(os.environ.get('SEEDRUN_BIN') or V+'/bin/vcgo',VS+'/bin/vcgo'); BIN=VS+'/bin/vcgo'
PIN=os.environ.get('SEEDRUN_PIN') or subprocess.run(['git','-C','/repo','rev-parse','HEAD'],capture_output=True,text=True).stdout.strip()  # the whole run uses this commit of /repo
claimed=[c['property_id'] for c in json.load(open(V+'/MANIFEST.json'))['checks']]
rows=[l.rstrip('\n').split('\t') for l in open(V+'/tools/seeds.tsv') if l.strip()]
want=set(sys.argv[1:])
env=dict(os.environ, GOFLAGS='-mod=mod', GOPROXY='off', GOSUMDB='off', GOTOOLCHAIN='local')
for r in rows:
    sid=r[0]
    if want and sid not in want: continue
    wt=tempfile.mkdtemp(prefix='seedrun-wt-'); os.rmdir(wt)
    out=tempfile.mkdtemp(prefix='seedrun-out-')
    try:
        subprocess.run(['git','-C','/repo','worktree','add','--detach',wt,PIN],capture_output=True,check=True)
        a=subprocess.run(['git','-C',wt,'apply',V+'/seeded/'+sid+'/patch.diff'],capture_output=True,text=True)
        if a.returncode!=0:
            a=subprocess.run(['git','-C',wt,'apply','-3',V+'/seeded/'+sid+'/patch.diff'],capture_output=True,text=True)
        if a.returncode!=0:
            print(sid,'PATCH DOES NOT APPLY',a.stderr.strip()[:200]); continue
        caught={}
        # checks worth running: the seed's own property, every property tagged in the contract files of the touched
        # packages, and the (fast) dataflow checks; the others cannot see the change (their functions are elsewhere)
        m0=json.load(open(V+'/seeded/'+sid+'/meta.json'))
        rel=set(['C04','C05','C08','C14','C15', m0.get('property','')])
        import re
        for f in m0.get('files_touched',[]):
            d=os.path.dirname(f)
            cf=os.path.join('/repo',d,'zz_verif_contracts.go')
            if os.path.exists(cf):
                for mm in re.finditer(r'props ([A-Z0-9 ]+)', open(cf).read()):
                    rel.update(mm.group(1).split())
                for mm in re.finditer(r'\[((?:(?:C\d\d|ONLY) ?)+)\]', open(cf).read()):
                    rel.update(mm.group(1).split())
        if os.environ.get('SEEDRUN_ALL'): rel=set(claimed)
        own=m0.get('property','')
        order=[q for q in claimed if q==own]+[q for q in claimed if q in rel and q!=own]
        for p in order:
            # two phases: the seed's own property first; the other relevant checks only if that one does not report it
            if p!=own and caught and not os.environ.get('SEEDRUN_ALL'): break
            if p!=own and os.environ.get('SEEDRUN_OWN_ONLY'): break
            res=subprocess.run([BIN,'check','-verif',VS,'-repo',wt,'-out',out,'-prop',p,'-tier','quick','-noreplay'],capture_output=True,text=True,env=env)
            viol=[l for l in res.stdout.split('\n') if l.startswith('VIOLATION')]
            err=[l for l in res.stdout.split('\n') if l.startswith('ERROR')]
            if viol or err:
                names=[]; definite=0
                for l in viol:
                    f=l.split('replay=')[1].split()[0]
                    names.append(os.path.basename(f).replace('.json',''))
                    try:
                        if json.load(open(f)).get('solver_status')=='sat' or 'dataflow' in json.load(open(f)).get('solver',''): definite+=1
                    except Exception: pass
                # 'definite': the solver produced a counterexample (sat) or a dataflow pass reports the violation;
                # the others are obligations that were discharged on the clean tree and are not (timeout/unknown) on this one
                caught[p]={'violations':len(viol),'definite':definite,'obligations':names[:6],'errors':err[:2]}
        if os.environ.get('SEEDRUN_NOWRITE'):
            print(sid,'->',{k:v['violations'] for k,v in caught.items()} or 'MISSED (own property only)'); continue
        m=json.load(open(V+'/seeded/'+sid+'/meta.json'))
        m['caught_by']=caught if caught else {}
        m['caught_by_note']='quick checks run on the patched tree: the check of the seeded property first, the other claimed checks that cover the touched packages (%s) only when that one does not report the change; {} = none of them reports it'%(','.join(q for q in claimed if q in rel))
        json.dump(m,open(V+'/seeded/'+sid+'/meta.json','w'),indent=1)
        print(sid,'->',{k:v['violations'] for k,v in caught.items()} or 'MISSED')
    finally:
        subprocess.run(['git','-C','/repo','worktree','remove','--force',wt],capture_output=True)
        shutil.rmtree(wt,ignore_errors=True); shutil.rmtree(out,ignore_errors=True)
