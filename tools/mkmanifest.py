#!/usr/bin/env python3
"""Regenerates /verif/MANIFEST.json from the table below (keeps it schema-valid at all times)."""
import json, subprocess
PROPS = [json.loads(l)['id'] for l in open('/verif/properties.jsonl')]
BASE_NOTE = ("Trusted: vcgo (own SSA->SMT VC generator), go/ssa of x/tools v0.29.0 as source semantics, z3 5.1.0 / cvc5 1.0.3 / z3 4.8.12, "
             "assumed dependency contracts in specs/deps.spec (bufio, io, sync.Pool, zerolog/fmt/errors as pure+total), GOARCH=amd64 (64-bit int, bit-vector exact). "
             "Each run lists the assumptions it actually used in its evidence file.")
CLAIMS = {}
def claim(pid, cat, text, tech, note=BASE_NOTE, ref=None):
    CLAIMS[pid] = dict(cat=cat, text=text, tech=tech, note=note, ref=ref or ("DESIGN.md section 5 " + pid))
NA = {}
exec(open('/verif/tools/claims.py').read())
checks = []
for pid in PROPS:
    if pid in CLAIMS:
        c = CLAIMS[pid]
        checks.append({
            "property_id": pid,
            "quick_cmd": "bin/check %s quick" % pid,
            "thorough_cmd": "bin/check %s thorough" % pid,
            "evidence_file": "evidence/%s.json" % pid,
            "replay_cmd_template": "python3 tools/replay.py {path}",
            "engine": "vcgo",
            "level_claimed": {"category": c['cat'], "text": c['text'], "design_ref": c['ref']},
            "level_note": c['note'],
            "technique": c['tech'],
        })
na = [{"property_id": p, "reason": NA.get(p, "machinery for this property not completed yet (DESIGN.md section 9 fall-back policy)")} for p in PROPS if p not in CLAIMS]
commits = subprocess.run(['git', '-C', '/repo', 'log', '--format=%h %s'], capture_output=True, text=True).stdout.strip().split('\n')
hooks = [c.split()[0] for c in commits if c.split(' ', 1)[1].startswith('verif:')]
m = {
    "version": 1,
    "setup_cmd": "cd /verif/engine && GOFLAGS=-mod=mod GOPROXY=off GOSUMDB=off GOTOOLCHAIN=local go build -o /verif/bin/vcgo .",
    "hooks": {"guard": "verif", "enable": "-tags verif (vcgo loads /repo with go/packages BuildFlags -tags=verif; contracts are //@ comments in <pkg>/zz_verif_contracts.go, comment-only files)",
              "baseline_off_cmd": "cd /repo && go test -vet=off -count=1 ./...", "source_commits": hooks, "add_only": True},
    "engines": [{"name": "vcgo", "path": "engine/", "serves_properties": sorted(CLAIMS), "kind_free_text": "contract-based deductive verifier for Go written for this task: go/packages+go/ssa (NaiveForm) of the real /repo sources -> weakest-precondition style VCs (passive form, loop invariants + Houdini, modular calls against contracts) -> SMT-LIB, discharged by z3-new / cvc5 / z3; counterexamples replayed on the real code with go test -overlay"}],
    "checks": checks,
    "notes": "See DESIGN.md. known_findings.json lists fixed/open findings by obligation name. seeded/ holds independently written property-breaking changes and which check catches them.",
    "not_applicable": na,
}
json.dump(m, open('/verif/MANIFEST.json', 'w'), indent=1)
print("claimed:", sorted(CLAIMS), "n/a:", [x['property_id'] for x in na])
